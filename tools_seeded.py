#!/usr/bin/env python3
"""Run checks against a seeded breakage (or a mutant patch) on a scratch copy
of /repo - never on /repo itself.

    python3 tools_seeded.py <dir-with-patch.diff | file.patch> [Cxx ...] [--all]
        [--tier quick] [--keep] [--demo]

For each patch: copy /repo's working tree to /dev/shm/verif-seed-<pid>, apply
the patch, run the repository's own test suite there (a patch that fails it
is reported as "not test-surviving"), run the requested checks with
VERIF_REPO pointing at the copy (evidence and replay files are redirected to
out/seeded/ so the committed evidence is not touched), remove the copy.
Prints one line per check: CAUGHT / MISSED / INCONCLUSIVE.
"""
import json
import os
import shutil
import subprocess
import sys

ROOT = os.path.dirname(os.path.abspath(__file__))
ALL = ['C%02d' % i for i in range(1, 21)]


def sh(cmd, **kw):
    return subprocess.run(cmd, stdout=subprocess.PIPE,
                          stderr=subprocess.STDOUT, text=True, **kw)


def main(argv):
    args = [a for a in argv if not a.startswith('--')]
    flags = [a for a in argv if a.startswith('--')]
    tier = 'quick'
    for f in flags:
        if f.startswith('--tier='):
            tier = f.split('=', 1)[1]
    target = args[0]
    props = [a.upper() for a in args[1:]]
    patch = target
    meta = {}
    demo = None
    if os.path.isdir(target):
        patch = os.path.join(target, 'patch.diff')
        mp = os.path.join(target, 'meta.json')
        if os.path.exists(mp):
            meta = json.load(open(mp))
        for cand in ('demo.py',):
            if os.path.exists(os.path.join(target, cand)):
                demo = os.path.join(target, cand)
    if '--all' in flags or not props:
        props = [meta['property']] if meta.get('property') and \
            '--all' not in flags else ALL
    scratch = '/dev/shm/verif-seed-%d' % os.getpid()
    if os.path.exists(scratch):
        shutil.rmtree(scratch)
    os.makedirs(scratch)
    try:
        r = sh(['rsync', '-a', '--exclude', '.git', '--exclude',
                '__pycache__', '/repo/', scratch + '/'])
        if r.returncode:
            print('copy failed', r.stdout)
            return 2
        r = sh(['patch', '-p1', '-s', '-i', os.path.abspath(patch)],
               cwd=scratch)
        if r.returncode:
            print('PATCH DOES NOT APPLY: %s\n%s' % (patch, r.stdout[-800:]))
            return 2
        env = dict(os.environ, PYTHONDONTWRITEBYTECODE='1')
        r = sh(['/venv/bin/python', '-m', 'pytest', '-q', '-x', '-p',
                'no:cacheprovider'], cwd=scratch, env=env)
        tests_ok = r.returncode == 0
        print('tests: %s' % ('pass' if tests_ok else
                             'FAIL (not test-surviving) ' +
                             r.stdout.strip().splitlines()[-1]))
        if demo and '--demo' in flags:
            r = sh(['/venv/bin/python', demo, scratch], env=env)
            print('demo on patched copy: exit %d' % r.returncode)
            r = sh(['/venv/bin/python', demo, '/repo'], env=env)
            print('demo on /repo: exit %d' % r.returncode)
        outd = os.path.join(ROOT, 'out', 'seeded', str(os.getpid()))
        os.makedirs(outd, exist_ok=True)
        env = dict(os.environ, VERIF_REPO=scratch, VERIF_EVIDENCE_DIR=outd,
                   VERIF_REPLAY_DIR=outd)
        caught = []
        for p in props:
            r = sh([os.path.join(ROOT, 'check'), p, '--tier', tier], env=env)
            mechs = [l.strip() for l in r.stdout.splitlines()
                     if l.strip().startswith('mechanism:')]
            if r.returncode == 1:
                caught.append(p)
                print('%s CAUGHT  %s' % (p, '; '.join(mechs[:3])[:220]))
            elif r.returncode == 0:
                print('%s missed' % p)
            else:
                last = r.stdout.strip().splitlines()[-1:] or ['']
                print('%s INCONCLUSIVE/ERROR rc=%s %s' % (p, r.returncode,
                                                          last[0][:200]))
        print('caught by: %s' % (' '.join(caught) or 'NONE'))
        if '--keep' not in flags:
            shutil.rmtree(outd, ignore_errors=True)
        return 0 if caught else 1
    finally:
        shutil.rmtree(scratch, ignore_errors=True)


if __name__ == '__main__':
    sys.exit(main(sys.argv[1:]))
