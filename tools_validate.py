import json, sys, glob
import jsonschema
sch = json.load(open('/root/.vp/EVIDENCE.schema.json'))
ok = True
for f in sorted(glob.glob('/verif/evidence/*.json')):
    try:
        jsonschema.validate(json.load(open(f)), sch)
    except Exception as e:
        ok = False
        print('INVALID', f, str(e)[:300])
msch = json.load(open('/root/.vp/MANIFEST.schema.json'))
try:
    jsonschema.validate(json.load(open('/verif/MANIFEST.json')), msch)
    print('manifest ok')
except Exception as e:
    ok = False
    print('MANIFEST INVALID', str(e)[:300])
print('all ok' if ok else 'PROBLEMS')
