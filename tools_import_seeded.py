#!/usr/bin/env python3
"""Import sub-agent deliverables from /tmp/seeded_out/<Cxx>/{a,b}.* into
/verif/seeded/<Cxx>-<x>/ (patch.diff, demo.py, meta.json) after confirming
them on a scratch copy of /repo: patch applies, the repository's tests pass
with it, the demonstration fails with it and passes without it. Then runs the
quick check of the tagged property (and optionally all) and records the
outcome in meta.json."""
import json, os, shutil, subprocess, sys

ROOT = os.path.dirname(os.path.abspath(__file__))
SRC = '/tmp/seeded_out'
TAG = ''
for _a in list(sys.argv[1:]):
    if _a.startswith('--src='):
        SRC = _a.split('=', 1)[1]
        sys.argv.remove(_a)
    elif _a.startswith('--tag='):
        TAG = _a.split('=', 1)[1]
        sys.argv.remove(_a)

def sh(cmd, **kw):
    return subprocess.run(cmd, stdout=subprocess.PIPE, stderr=subprocess.STDOUT, text=True, **kw)

def confirm(pid, x):
    base = os.path.join(SRC, pid)
    patch = os.path.join(base, x + '.patch.diff')
    demo = os.path.join(base, x + '.demo.py')
    metaf = os.path.join(base, x + '.meta.json')
    if not (os.path.exists(patch) and os.path.exists(demo)):
        return None
    try:
        meta = json.load(open(metaf))
    except Exception:
        meta = {}
    scratch = '/dev/shm/verif-import-%d' % os.getpid()
    shutil.rmtree(scratch, ignore_errors=True)
    os.makedirs(scratch)
    res = {}
    try:
        sh(['rsync', '-a', '--exclude', '.git', '--exclude', '__pycache__', '/repo/', scratch + '/'])
        env = dict(os.environ, PYTHONDONTWRITEBYTECODE='1')
        r = sh(['/venv/bin/python', demo, scratch], env=env, timeout=300)
        res['demo_exit_unpatched'] = r.returncode
        r = sh(['patch', '-p1', '-s', '-i', patch], cwd=scratch)
        res['patch_applies'] = r.returncode == 0
        if not res['patch_applies']:
            res['patch_output'] = r.stdout[-400:]
            return meta, res
        r = sh(['/venv/bin/python', '-m', 'pytest', '-q', '-p', 'no:cacheprovider'], cwd=scratch, env=env)
        res['tests_pass_with_patch'] = r.returncode == 0
        res['tests_tail'] = r.stdout.strip().splitlines()[-1]
        r = sh(['/venv/bin/python', demo, scratch], env=env, timeout=300)
        res['demo_exit_patched'] = r.returncode
        res['demo_output_patched'] = r.stdout[-600:]
    finally:
        shutil.rmtree(scratch, ignore_errors=True)
    return meta, res

def main():
    pids = sys.argv[1:] or sorted(d for d in os.listdir(SRC) if d.startswith('C'))
    for pid in pids:
        for x in ('a', 'b', 'c'):
            out = confirm(pid, x)
            if out is None:
                continue
            meta, res = out
            ok = (res.get('patch_applies') and res.get('tests_pass_with_patch') and
                  res.get('demo_exit_patched') == 1 and res.get('demo_exit_unpatched') == 0)
            sid = '%s-%s%s' % (pid, TAG, x)
            print('%s confirmed=%s %s' % (sid, ok, {k: v for k, v in res.items() if k != 'demo_output_patched'}))
            if not ok:
                continue
            d = os.path.join(ROOT, 'seeded', sid)
            os.makedirs(d, exist_ok=True)
            shutil.copy(os.path.join(SRC, pid, x + '.patch.diff'), os.path.join(d, 'patch.diff'))
            shutil.copy(os.path.join(SRC, pid, x + '.demo.py'), os.path.join(d, 'demo.py'))
            m = {'id': sid, 'property': pid,
                 'breaks': meta.get('summary'), 'needs_to_manifest': meta.get('needs'),
                 'files': meta.get('files'), 'origin': 'independent sub-agent given only the property text and a scratch worktree',
                 'confirmed': {'command': 'python3 tools_import_seeded.py %s' % pid,
                               'repo_tests_with_patch': res['tests_tail'],
                               'demo_exit_with_patch': res['demo_exit_patched'],
                               'demo_exit_without_patch': res['demo_exit_unpatched'],
                               'demo_output_with_patch': res['demo_output_patched'][-300:]}}
            old = os.path.join(d, 'meta.json')
            if os.path.exists(old):
                try:
                    m['checks'] = json.load(open(old)).get('checks')
                except Exception:
                    pass
            json.dump(m, open(old, 'w'), indent=1)

main()
