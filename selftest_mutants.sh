#!/bin/sh
# Runs every mutant in mutants/ against the quick check of the property it is
# tagged with, on scratch copies of /repo (never /repo itself).
cd "$(dirname "$0")"
python3 - <<'PY'
import json, subprocess, sys, concurrent.futures as cf
idx = json.load(open('mutants/index.json'))
def run(m):
    r = subprocess.run(['python3', 'tools_seeded.py', 'mutants/%s.patch' % m['id'], m['property']],
                       stdout=subprocess.PIPE, stderr=subprocess.STDOUT, text=True)
    lines = r.stdout.strip().splitlines()
    tests = [l for l in lines if l.startswith('tests:')]
    return m, r.returncode, (tests[0] if tests else '?'), lines[-1] if lines else ''
bad = 0
with cf.ThreadPoolExecutor(4) as ex:
    for m, rc, tests, last in ex.map(run, idx):
        control = 'control' in m['note']
        ok = (rc == 1) if control else (rc == 0)
        if not ok: bad += 1
        print('%-40s %-4s %-14s %-28s %s' % (m['id'], m['property'], 'OK' if ok else 'UNEXPECTED', tests[:28], last[:60]))
sys.exit(1 if bad else 0)
PY
