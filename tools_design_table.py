#!/usr/bin/env python3
"""Regenerates the table of DESIGN.md section 9 from seeded/*/meta.json and
mutants/index.json."""
import json, os, re
ROOT = os.path.dirname(os.path.abspath(__file__))
rows = []
for sid in sorted(os.listdir(os.path.join(ROOT, 'seeded'))):
    mp = os.path.join(ROOT, 'seeded', sid, 'meta.json')
    if not os.path.exists(mp):
        continue
    m = json.load(open(mp))
    ch = m.get('checks') or {}
    own = ch.get('own_quick', {})
    rel = ch.get('related_quick') or ch.get('all_quick') or {}
    caught = set(own.get('caught_by', {})) | set(rel.get('caught_by', {}))
    tried = set(own.get('missed_by', [])) | set(rel.get('missed_by', [])) | caught
    mech = (own.get('caught_by', {}) or rel.get('caught_by', {})).get(m['property'], '')
    mech = re.sub(r'\s+', ' ', mech.replace('mechanism:', '')).strip()
    mech = mech.split(';')[0][:90]
    what = (m.get('breaks') or '').replace('|', '/').replace('\n', ' ')[:150]
    if m.get('not_caught_reason') and not caught:
        mech = 'outside the quantifier, see meta.json'
    rows.append('| %s | %s | %s | %s | `%s` |' % (
        sid, what, ' '.join(sorted(caught)) or '**none**',
        ' '.join(sorted(tried - caught)) or '-', mech))
head = ('360 independently written breakages (round 1: two per property, ids '
        '`Cxx-a/b`; round 2: three per property, ids `Cxx-r2a/b/c`; round 3, '
        'asked for changes that need two coinciding conditions: two per '
        'property, ids `Cxx-r3a/b`; round 4, asked for two cooperating edits '
        '(a) and an error / reuse / exact-boundary path (b): ids '
        '`Cxx-r4a/b`; round 5, agents were told that a strong randomized '
        'harness exists and asked for changes it would be likely to miss: '
        'three per property, ids `Cxx-r5a/b/c`; round 6, the same with the '
        'hint to use time, global state, odd Python objects, interpreter '
        'flags and stream kinds: two per property, ids `Cxx-r6a/b`; round 7, '
        'told about all of that and asked for purely value-dependent '
        'breakages in a plain interpreter (numeric coincidences, option '
        'combinations, state carried between sections, absent / default / '
        'falsy): two per property, ids `Cxx-r7a/b`; round 8, interactions of '
        'three or more features, sibling order / count, coincidences after '
        'transformation, streaming vs object-model asymmetries, late error '
        'paths: two per property, ids `Cxx-r8a/b`), all '
        'confirmed (apply, 176 repository tests pass, demonstration fails '
        'with / passes without). "caught by" lists every quick check that '
        'reported a VIOLATION on a scratch copy with the patch applied (the '
        'tagged check plus the checks related to the touched files were '
        'run); "also run, silent" the others that were tried. The last '
        'column is the first mechanism the tagged check printed.\n\n'
        'First-pass result before any strengthening: round 1 36/40 caught by '
        'the tagged check, round 2 44/60, round 3 27/40, round 4 30/40, round 5 21/60, round 6 7/40, round 7 29/40, round 8 19/40. Each miss was '
        'analysed and the '
        'check strengthened (never the seeded change adapted): C02 codec '
        'spelling sweep; C07 exact-byte-count and mid-line-cut mechanisms; '
        'C10 first header carrying main options, block-size padded headers; '
        'C15 separator-run spellings, U+FEFF on later lines, parent content '
        'before a codec change; C18 shared-vs-fresh reader / writer results, '
        'non JSON-native metadata; C01/C05 very long first lines; C04 '
        're-declared main encoding, rejected container calls, object-model '
        'writer; C08 hostile option pairs; C09 falsy invalid values, every '
        'next call after a rejection; C19 equal-hash values, option removal, '
        'constructor keywords; (round 3) C04 changes without files; C07 the '
        'exact shape of the known short-read finding (own newline, at most '
        'the declared indent) so that any other truncated yield is a '
        'violation; C08 all-digit codec aliases; C09 codec names that resolve '
        'but cannot be written to the ASCII header; C10 CRLF files, more '
        'block-boundary paddings, re-iteration of one reader; C11 / C12 '
        'headers on block boundaries in LF and CRLF files, option names that '
        'collide with reader internals; C14 sign-flipped body lines; C15 '
        'consecutive sections sharing line_endings but not the codec; C17 '
        'headers > 4 kB; C20 CRLF delta / literal lines; (round 4) C06 second '
        'serialisation of the same object; C07 a yielded section must be '
        'non-empty and end in its newline even under a merely wrong length; '
        'C10 blank separator lines before headers; C14 "%" in hunk header '
        'context; C16 cold / warm library state and >= 64 KiB buffers split '
        'repeatedly; C18 / C19 equality with an untouched twin before and '
        'after observers, equality matrix under observers, foreign files '
        'with {} metadata; C20 dos metadata. (round 5) documents placed at a '
        'non-zero stream offset and consumers that empty what they were '
        'yielded (every reader-driven check, via common.read_records); '
        'buffered streams with tiny buffers / peek(); sizes of exactly '
        '1 MiB +- 1 and 3 MiB, indents of 65535 / 65536 / 70001, first lines '
        'of 1 K / 4 K / 8 K / 64 K; a fuzzing dictionary harvested from the '
        "literals of the tree under test (magic markers); C03 more values "
        'per defect (version=1.00, format=0 ...); C04 second pass of one '
        'reader, statistics never read a diff through a container encoding; '
        'C05 one shared DiffXDOMWriter; C06 re-spelled container encodings, '
        'from_stream at an offset; C08 forward-only streams must be closed; '
        'C09 exotic legal codec names, positional optional arguments; C11 '
        '"%" in the alphabet, blank lines with the other terminator first; '
        'C13 4400-digit hunk numbers, look-alike first lines, container '
        'encodings; C14 marker look-alikes, > 1 KiB lines; C15 statistics per '
        'spelling, look-alike pairs; C16 same-ends buffer pairs, > 1 MiB '
        'lines; C17 stream offsets, buffer-boundary files, headers up to '
        '70 kB; C18 structural view invariants, in-place list edits, '
        'None-valued options, integer-key metadata; C19 several perturbation '
        'styles, spelled encodings stored verbatim; C20 markdown preambles '
        'with fenced code, one-line diffs, "GIT binary patch". (round 6) the '
        'process and usage axes of section 2.8: python -O shards, hostile '
        'warm-up shards, the seeded baton scheduler and interleaved '
        'generators, exotic argument objects, real / compressed streams, '
        'retained write buffers, warnings-as-errors on C09\'s weak oracle, '
        'sizes beyond 8 MiB / 1 MiB headers / 4 MiB split buffers, digit runs '
        'beyond the int<->str limit, Unicode confusables of grammar '
        'characters (C11), unpadded blank lines in indented preambles (C03, '
        'C06), float statistics (C13), writer-parameter keys in options and '
        'nested default_value (C18), denotation pairs such as {1: x} / '
        '{"1": x} and [..] / (..) (C19), nesting-depth sweep (C08), late '
        'codecs (C15). (round 7) lone surrogates in JSON strings; metadata '
        'line_endings in object-model trees (C05); metadata bytes produced '
        'with another codec than the effective one (C04); producer options '
        'with negative / zero-padded / huge integers (C03); header lines of '
        '97-400 bytes in the every-byte cut sweep, lengths of 2^31-1 .. 2^64 '
        'alone and together with the indent (C07, which also exposed known '
        'finding F8c); lone surrogates of every range as must-raise text '
        '(C09); blank lines with the other terminator and containers '
        'carrying options that are meaningful elsewhere (C10); streaming '
        'records edited by the consumer (C18); marker words inside diff '
        'lines (C20). (round 8) indent / line_endings as producer options on '
        'sections where they mean nothing (C03, C12); statistics independent '
        'of container encodings and bare diffs under wide scopes (C04); '
        'public lists edited in place (C05, C19); CRLF diffs with bare-LF '
        'marker lines in the cut sweep (C07); broken JSON whose line breaks '
        'disagree with line_endings, option names that are attribute names '
        '(C08, exposing F12); valid choices with a suffix (C09); headers '
        'behind every amount of whitespace (C11); marker / header look-alikes '
        '(C13, C14, exposing F11); one line spanning whole blocks and round '
        'line counts (C16); identical large metadata (C18); CPU-time budget '
        'for the lexer (C20). After that '
        '344 of 360 are caught by their tagged check; six of round 8 are '
        'recorded as not claimed or obsolete (C01-r8b, C10-r8a, C10-r8b, '
        'C12-r8b, C14-r8b, C17-r8a - see their meta.json); earlier: three of round 6 are '
        'recorded as not claimed (C06-r6b is the same change as the allowed '
        'patch P8-a; C10-r6a needs -W error on legal input; C10-r6b needs a '
        'stream without tell()), and the other seven '
        "(C04-r4a encoding='', C02-r5a UTF-7, C03-r5a / C06-r5c "
        'under-indented foreign lines, C10-r3a / C10-r4b / C04-r5b second '
        'iteration of one reader object) only manifest outside the quantifier '
        'of their property and each meta.json says why. The last three WERE '
        'caught until the behaviour-preserving change P7-c (section 9.1) '
        'showed that demanding anything of a second iteration is more than '
        'the properties state.\n\n'
        '| id | change | caught by | also run, silent | first mechanism (tagged check) |\n'
        '|---|---|---|---|---|\n')
mut = json.load(open(os.path.join(ROOT, 'mutants', 'index.json')))
mt = ('\n\nOwn mutants (`mutants/`, `./selftest_mutants.sh`): %d patches, one '
      'per planned "Catches" entry; every one is caught by the quick check of '
      'its property except the control `m23` (behaviour-preserving), which '
      'must stay silent.\n\n| mutant | property | note |\n|---|---|---|\n' % len(mut))
mt += '\n'.join('| %s | %s | %s |' % (m['id'], m['property'], m['note']) for m in mut)
table = head + '\n'.join(rows) + mt
p = os.path.join(ROOT, 'DESIGN.md')
s = open(p).read()
if '@@SEEDED_TABLE@@' in s:
    s = s.replace('@@SEEDED_TABLE@@', '<!-- SEEDED_TABLE_BEGIN -->\n' + table + '\n<!-- SEEDED_TABLE_END -->')
else:
    s = re.sub(r'<!-- SEEDED_TABLE_BEGIN -->.*<!-- SEEDED_TABLE_END -->',
               lambda m: '<!-- SEEDED_TABLE_BEGIN -->\n' + table + '\n<!-- SEEDED_TABLE_END -->', s, flags=re.S)
open(p, 'w').write(s)
print('%d rows' % len(rows))
