#!/usr/bin/env python3
"""Regenerates MANIFEST.json from the table below (run after adding a
property module). Properties without a module under mon/props are listed
under not_applicable with the reason given here."""
import json
import os

ROOT = os.path.dirname(os.path.abspath(__file__))

CHECKS = {
    'C01': ('exploration',
            'runtime monitoring: real writer -> real reader on generated '
            'recipes, records compared with a spec-derived reference model',
            'Held on K generated executions (K in evidence); reaches the '
            'product space of nesting history x per-section encoding x indent '
            'x line endings x hostile content that the suite never composes. '
            'Not a proof: only executions actually produced are decided.',
            'oracle serializer/record model is a faithful reading of the '
            'spec; byte-level line definition for encoded content', '4/C01'),
    'C02': ('exploration',
            'runtime monitoring: writer bytes vs independent spec serializer '
            '(byte equality) + independent conformance scanner + append-only '
            'stream monitor',
            'Every produced byte stream of K generated call sequences is '
            'compared with a second implementation of the format and walked '
            'by a scanner; divergences are attributed to a section.',
            'oracle serializer and scanner are faithful to docs/spec; JSON '
            'spelling tolerated by denotation', '4/C02'),
}

CHECKS.update({
    'C04': ('exploration',
            'runtime monitoring: reference model (tree-derived effective '
            'encoding) vs real writer bytes and real reader records over '
            'enumerated + random container histories; reader generator '
            'locals probed for diagnostics',
            'All container histories up to a bounded length x all '
            'declare/omit masks are executed, random ones up to 40 '
            'containers beyond; encodings are pairwise distinguishing so a '
            'wrong scope is observable in bytes / text.',
            'effective encoding = own option else nearest declaring '
            'ancestor; diffs never inherit', '4/C04'),
    'C07': ('fault_enumeration',
            'fault enumeration: every truncation point of every base file + '
            'length perturbations, prefix-of-intact-records oracle, stream '
            'monitor keys the short-read mechanism',
            'Every cut 0..len(f) of each generated file is executed against '
            'the real reader; crash points are enumerated completely per '
            'file, files are sampled.',
            'intact records from the spec serializer layout; known findings '
            'F8a/F8b/F8c (short read accepted) are reported, not alarmed',
            '4/C07'),
    'C08': ('fault_enumeration',
            'fault enumeration: corruption catalogue + sys.monitoring '
            'fail-points; exception-family / message / closed-stream oracle',
            '15 corruption operators over generated files drive the real '
            'reader, DiffX.from_bytes and DiffX.from_stream; an exception is '
            'injected at every eligible line of sampled loads.',
            'linenum bound uses LF count (input length for wide encodings); '
            'watchdog firing is inconclusive', '4/C08'),
    'C09': ('exploration',
            'bounded-exhaustive call histories on the real writer over an '
            'instrumented stream: hierarchy model + zero-write-window + '
            'append-only + "bytes == serializer(accepted calls only)"',
            'All histories over the 5 calls up to length 7 (quick) / 9 '
            '(thorough) with a must-raise invalid-argument variant before '
            'every step and hostile option values at every model state; '
            'random histories of length 10-60 beyond.',
            'exception class of a rejection is free; ..meta -> .change is a '
            'don\'t-care', '4/C09'),
    'C10': ('exploration',
            'bounded-exhaustive section-id sequences read by the real '
            'reader vs the specification hierarchy relation',
            'All id sequences up to length 3/4 over the 24 level/name '
            'combinations and all legal paths up to length 10/13 extended '
            'by each id.',
            '..meta -> .change is a don\'t-care (spec texts disagree)',
            '4/C10'),
    'C11': ('exploration',
            'bounded-exhaustive header lines read by the real reader vs a '
            'hand-written recogniser of the spec header grammar',
            'All tails up to length 4/5 over a 15-symbol alphabet, all heads '
            'up to 6 symbols, token-level option lists, single-byte '
            'substitution sweeps over long valid headers.',
            'python-only int spellings and duplicate keys tolerated',
            '4/C11'),
    'C16': ('exploration',
            'bounded-exhaustive byte strings through the real split_lines; '
            'identities evaluated by the icontract post-condition functions '
            '+ scanning reference splitter',
            'All strings up to length 8 (quick) / 10 (thorough) over '
            '{CR,LF,NUL,space,a} x 10 newline sequences x both modes; random '
            'strings up to 4 kB; the same conditions run as a contract in '
            'every other check.',
            'newline sequences have no self-overlap', '4/C16'),
})

CHECKS.update({
    'C03': ('exploration',
            'runtime monitoring: real reader on files produced by an '
            'independent spec-derived generator (foreign layouts) vs the '
            'spec reader model; single-defect catalogue applied to every '
            'section',
            'K foreign well-formed files (shuffled / dropped options, blank '
            'lines, CRLF headers, 6 JSON layouts, no-encoding files, '
            'line_endings on metadata) and every applicable defect x every '
            'section of a sample of them.',
            'logical lines exclude blank separators; newline look-alikes '
            'only where the spec reading is unambiguous', '4/C03'),
    'C05': ('exploration',
            'runtime monitoring: trees built through the public API in '
            'random order, snapshot oracle + spec serializer on the '
            'snapshot + layout-derived expected parse',
            'K random tree specifications incl. empty / absent sections '
            'and unserialisable trees (skipped, counted).',
            'JSON-representable metadata; normalisation = canonical header '
            'options minus length', '4/C05'),
    'C06': ('exploration',
            'runtime monitoring: byte identity of parse->serialise on '
            'canonical files; acceptance / contents / fixed-point oracle on '
            'foreign files',
            'K canonical recipes (writer and oracle bytes) and K foreign '
            'serialisations with the liberties the property lists.',
            'canonical quantifier = options as in C01 (indent >= 0); files '
            'the object model rejects with its own error family are '
            'outside the quantifier', '4/C06'),
    'C12': ('exploration',
            'metamorphic runtime monitoring: records with / without inserted '
            'unknown options on the real reader',
            'Every insertion position of a header, 1-3 extras on several '
            'headers, the same extra on all headers, over K base files.',
            'known option names are the eight the library handles', '4/C12'),
    'C15': ('exploration',
            'catalogue-exhaustive runtime monitoring: BOM-free newline model '
            'vs the real helpers (also as icontract post-conditions in all '
            'runs) + writer/serializer byte equality + reader round trip per '
            'spelling',
            'All catalogue codecs (43) x all accepted spellings (~730) x '
            'unix/dos x a text set; thorough adds random texts.',
            'stateless text codecs only; numeric spellings excluded',
            '4/C15'),
    'C17': ('exploration',
            'metamorphic runtime monitoring + stream conservation monitor: '
            'every padding 0..192 of the first header and every read-ahead '
            'block size 1..192 (+ larger than file) on the real reader',
            'K base files with long headers / lines; BytesIO and real files '
            'with three buffering modes; position checked at every yield.',
            'block size changed through _read_until.__defaults__ '
            '(diagnostic handle)', '4/C17'),
})

CHECKS.update({
    'C13': ('exploration',
            'runtime monitoring: generate_stats on trees whose diffs are '
            'assembled from hunks with counts known by construction; '
            'additive / non-destructive / idempotence oracles on snapshots',
            'K trees (0-4 changes x 0-5 files) with unix/dos, explicit / '
            'implicit line endings, 8 diff encodings incl. UTF-16/32 and '
            'EBCDIC, binary / empty / absent / unparsable diffs, '
            'pre-existing stats with custom keys.',
            'pre-existing stats are dicts of ints; first line decides '
            'implicit line endings', '4/C13'),
    'C14': ('exploration',
            'runtime monitoring: real hunk parser (deal.raises + icontract '
            'post-condition) vs a constructive hunk model; single-point '
            'damages of every hunk; random line lists',
            'K generated diffs in both modes, 4 damages per hunk, random '
            'lists of lines and the empty list.',
            'trailing marker in strict mode tolerated (n-1 or n processed); '
            'markers carry no leading whitespace', '4/C14'),
    'C18': ('exploration',
            'runtime monitoring of operation histories over several live '
            'trees: all-trees snapshot monitor at every step + id()-graph '
            'alias detector with behavioural confirmation',
            'K random histories of 30-200 operations over <= 6 live trees '
            'sharing one DOM reader and one DOM writer object.',
            'snapshots read public attributes only', '4/C18'),
    'C19': ('exploration',
            'runtime monitoring: every typed attribute (by reflection) x '
            'value pool with whole-tree snapshot atomicity oracle; unknown '
            'names; equality congruence under single-field perturbations',
            'All 39 typed attributes x 33 values on K trees; 17 unknown '
            'names x 3 entry points; K equal pairs with every single-field '
            'and structural perturbation.',
            'bool tolerated for int; perturbations change denotation',
            '4/C19'),
    'C20': ('exploration',
            'runtime monitoring of the real Pygments lexer: lossless / '
            'contiguous-offset oracle on random DiffX-shaped strings, header '
            'token list vs serializer layout on writer-produced files, '
            'watchdog for termination',
            'K random strings up to 4 kB and K benign writer-produced UTF-8 '
            'files.',
            'Pygments from /venv; get_tokens_unprocessed is the lossless '
            'interface', '4/C20'),
})

NOT_YET = {}


def main():
    checks = []
    na = []
    for i in range(1, 21):
        pid = 'C%02d' % i
        have = os.path.exists(os.path.join(ROOT, 'mon', 'props',
                                           pid.lower() + '.py'))
        if pid in CHECKS and have:
            cat, tech, text, note, ref = CHECKS[pid]
            checks.append({
                'property_id': pid,
                'quick_cmd': './check %s --tier quick' % pid,
                'thorough_cmd': './check %s --tier thorough' % pid,
                'evidence_file': 'evidence/%s.json' % pid,
                'replay_cmd_template': './check %s --replay {path}' % pid,
                'engine': 'mon',
                'level_claimed': {'category': cat, 'text': text,
                                  'design_ref': 'DESIGN.md section ' + ref},
                'level_note': note,
                'technique': tech,
            })
        else:
            na.append({'property_id': pid,
                       'reason': NOT_YET.get(
                           pid, 'check not built yet in this round (planned: '
                           'runtime monitor per DESIGN.md section 4); not '
                           'claimed until its check exists')})
    man = {
        'version': 1,
        'setup_cmd': ('/venv/bin/python -c "import sys; sys.path.insert(0, '
                      '\'.\'); from mon import env; '
                      'sys.exit(0 if env.ensure_deps() else 1)"'),
        'hooks': {
            'guard': 'PYDIFFX_VERIF',
            'enable': ('no source hooks: all instrumentation (stream '
                       'wrappers, icontract/deal contracts, sys.monitoring '
                       'reach counters and fail-points) is attached from the '
                       'harness at import time; checks import pydiffx from '
                       '/repo/python in a fresh process'),
            'baseline_off_cmd': ('cd /repo && /venv/bin/python -m pytest -ra '
                                 '-q -p no:cacheprovider --timeout=900 '
                                 '--continue-on-collection-errors'),
            'source_commits': [],
            'add_only': True,
        },
        'engines': [{
            'name': 'mon',
            'path': 'mon/',
            'serves_properties': [c['property_id'] for c in checks],
            'kind_free_text': ('runtime-monitoring framework: workload '
                               'generators + spec-derived reference models + '
                               'stream/contract/reach monitors, 16-way '
                               'sharded'),
        }],
        'checks': checks,
        'not_applicable': na,
        'notes': ('Exit 0 = held on what was observed (KNOWN-FINDING lines '
                  'for listed findings), 1 = VIOLATION, 2 = INCONCLUSIVE. '
                  'VERIF_SEED selects the workload; VERIF_REPO (default '
                  '/repo) the tree under test.'),
    }
    with open(os.path.join(ROOT, 'MANIFEST.json'), 'w') as fh:
        json.dump(man, fh, indent=1)
        fh.write('\n')


if __name__ == '__main__':
    main()
