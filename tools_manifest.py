#!/usr/bin/env python3
"""Regenerates MANIFEST.json from the table below (run after adding a
property module). Properties without a module under mon/props are listed
under not_applicable with the reason given here."""
import json
import os

ROOT = os.path.dirname(os.path.abspath(__file__))

CHECKS = {
    'C01': ('exploration',
            'runtime monitoring: real writer -> real reader on generated '
            'recipes, records compared with a spec-derived reference model',
            'Held on K generated executions (K in evidence); reaches the '
            'product space of nesting history x per-section encoding x indent '
            'x line endings x hostile content that the suite never composes. '
            'Not a proof: only executions actually produced are decided.',
            'oracle serializer/record model is a faithful reading of the '
            'spec; byte-level line definition for encoded content', '4/C01'),
    'C02': ('exploration',
            'runtime monitoring: writer bytes vs independent spec serializer '
            '(byte equality) + independent conformance scanner + append-only '
            'stream monitor',
            'Every produced byte stream of K generated call sequences is '
            'compared with a second implementation of the format and walked '
            'by a scanner; divergences are attributed to a section.',
            'oracle serializer and scanner are faithful to docs/spec; JSON '
            'spelling tolerated by denotation', '4/C02'),
}

NOT_YET = {}


def main():
    checks = []
    na = []
    for i in range(1, 21):
        pid = 'C%02d' % i
        have = os.path.exists(os.path.join(ROOT, 'mon', 'props',
                                           pid.lower() + '.py'))
        if pid in CHECKS and have:
            cat, tech, text, note, ref = CHECKS[pid]
            checks.append({
                'property_id': pid,
                'quick_cmd': './check %s --tier quick' % pid,
                'thorough_cmd': './check %s --tier thorough' % pid,
                'evidence_file': 'evidence/%s.json' % pid,
                'replay_cmd_template': './check %s --replay {path}' % pid,
                'engine': 'mon',
                'level_claimed': {'category': cat, 'text': text,
                                  'design_ref': 'DESIGN.md section ' + ref},
                'level_note': note,
                'technique': tech,
            })
        else:
            na.append({'property_id': pid,
                       'reason': NOT_YET.get(
                           pid, 'check not built yet in this round (planned: '
                           'runtime monitor per DESIGN.md section 4); not '
                           'claimed until its check exists')})
    man = {
        'version': 1,
        'setup_cmd': ('/venv/bin/python -c "import sys; sys.path.insert(0, '
                      '\'.\'); from mon import env; '
                      'sys.exit(0 if env.ensure_deps() else 1)"'),
        'hooks': {
            'guard': 'PYDIFFX_VERIF',
            'enable': ('no source hooks: all instrumentation (stream '
                       'wrappers, icontract/deal contracts, sys.monitoring '
                       'reach counters and fail-points) is attached from the '
                       'harness at import time; checks import pydiffx from '
                       '/repo/python in a fresh process'),
            'baseline_off_cmd': ('cd /repo && /venv/bin/python -m pytest -ra '
                                 '-q -p no:cacheprovider --timeout=900 '
                                 '--continue-on-collection-errors'),
            'source_commits': [],
            'add_only': True,
        },
        'engines': [{
            'name': 'mon',
            'path': 'mon/',
            'serves_properties': [c['property_id'] for c in checks],
            'kind_free_text': ('runtime-monitoring framework: workload '
                               'generators + spec-derived reference models + '
                               'stream/contract/reach monitors, 16-way '
                               'sharded'),
        }],
        'checks': checks,
        'not_applicable': na,
        'notes': ('Exit 0 = held on what was observed (KNOWN-FINDING lines '
                  'for listed findings), 1 = VIOLATION, 2 = INCONCLUSIVE. '
                  'VERIF_SEED selects the workload; VERIF_REPO (default '
                  '/repo) the tree under test.'),
    }
    with open(os.path.join(ROOT, 'MANIFEST.json'), 'w') as fh:
        json.dump(man, fh, indent=1)
        fh.write('\n')


if __name__ == '__main__':
    main()
