#!/usr/bin/env python3
"""Behaviour-preserving changes (refactorings written by sub-agents that were
told to keep all 20 properties): every quick check must stay silent on them.
Imports /tmp/preserve_out/P*/X.patch.diff into preserving/<id>/ and runs all
checks on scratch copies. A CAUGHT line here is a candidate FALSE ALARM (or a
refactoring that is not as behaviour-preserving as intended) to be triaged."""
import json, os, shutil, subprocess, sys
ROOT = os.path.dirname(os.path.abspath(__file__))
SRC = os.environ.get('PRESERVE_SRC', '/tmp/preserve_out')
dst = os.path.join(ROOT, 'preserving')
if os.path.isdir(SRC):
    for p in sorted(os.listdir(SRC)):
        for x in 'abc':
            f = os.path.join(SRC, p, x + '.patch.diff')
            if os.path.exists(f) and os.path.getsize(f) > 0:
                d = os.path.join(dst, '%s-%s' % (p, x))
                os.makedirs(d, exist_ok=True)
                shutil.copy(f, os.path.join(d, 'patch.diff'))
                m = os.path.join(SRC, p, x + '.meta.json')
                if os.path.exists(m) and not os.path.exists(os.path.join(d, 'meta.json')):
                    shutil.copy(m, os.path.join(d, 'meta.json'))
only = [a for a in sys.argv[1:] if not a.startswith('--')]
props = [a for a in only if a.startswith('C') and len(a) == 3]
ids = [a for a in only if a not in props]
for sid in sorted(os.listdir(dst)):
    if ids and not any(sid.startswith(i) for i in ids):
        continue
    d = os.path.join(dst, sid)
    cmd = ['python3', os.path.join(ROOT, 'tools_seeded.py'), os.path.join(d, 'patch.diff')] + (props or ['--all'])
    r = subprocess.run(cmd, stdout=subprocess.PIPE, stderr=subprocess.STDOUT, text=True)
    lines = r.stdout.strip().splitlines()
    tests = [l for l in lines if l.startswith('tests:')]
    bad = [l for l in lines if ' CAUGHT ' in l or 'INCONCLUSIVE' in l or 'PATCH DOES NOT' in l]
    mp = os.path.join(d, 'meta.json')
    try:
        m = json.load(open(mp))
    except Exception:
        m = {}
    m['quick_checks'] = {'tests': tests[0] if tests else '?', 'alarms': bad,
                         'silent': [l.split()[0] for l in lines if l.endswith(' missed')]}
    json.dump(m, open(mp, 'w'), indent=1)
    print('%-6s %s %s' % (sid, tests[0] if tests else '?', 'ALL SILENT' if not bad else 'ALARMS:'))
    for b in bad:
        print('      ' + b[:230])
