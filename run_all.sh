#!/bin/sh
# ./run_all.sh [tier] [seed] : run every check, print one line each
tier=${1:-quick}; seed=${2:-0}
cd "$(dirname "$0")"
rc=0
for i in 01 02 03 04 05 06 07 08 09 10 11 12 13 14 15 16 17 18 19 20; do
  out=$(VERIF_SEED=$seed ./check C$i --tier $tier 2>&1); r=$?
  echo "C$i rc=$r $(echo "$out" | grep -v KNOWN-FINDING | tail -1 | cut -c1-150)"
  [ $r -ne 0 ] && { rc=1; echo "$out" | grep -E 'VIOLATION|INCONCLUSIVE|mechanism' | head -8; }
done
exit $rc
