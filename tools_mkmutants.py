#!/usr/bin/env python3
"""Generates mutants/*.patch from the table below (exact old -> new string
replacements against /repo's current tree). A mutant models a realistic
regression; each is tagged with the property it must break. Run
selftest_mutants.sh afterwards."""
import difflib
import json
import os

ROOT = os.path.dirname(os.path.abspath(__file__))
REPO = os.environ.get('VERIF_REPO', '/repo')

W = 'python/pydiffx/writer.py'
R = 'python/pydiffx/reader.py'
T = 'python/pydiffx/utils/text.py'
U = 'python/pydiffx/utils/unified_diffs.py'
S = 'python/pydiffx/sections.py'
O = 'python/pydiffx/dom/objects.py'
DR = 'python/pydiffx/dom/reader.py'
DW = 'python/pydiffx/dom/writer.py'
P = 'python/pydiffx/dom/properties.py'
L = 'python/pydiffx/integrations/pygments_lexer.py'

MUTANTS = [
    # id, property, file, old, new, note
    ('m01_newline_keeps_bom', 'C01', W,
     "        newline = strip_bom(newline,\n                            encoding=encoding)\n",
     "", 'writer no longer strips the BOM of the appended newline'),
    ('m02_reader_strip_indent_all_spaces', 'C01', R,
     "br'^ {1,%d}' % min(indent, len(content))", "br'^ +'",
     'reader strips all leading spaces, not at most indent'),
    ('m03_options_not_sorted', 'C02', W,
     "            for _key, _value in sorted(options.items(),\n                                       key=lambda pair: pair[0])\n",
     "            for _key, _value in options.items()\n",
     'header options no longer sorted'),
    ('m04_json_sort_keys_dropped', 'C02', W,
     "                             sort_keys=True)", "                             sort_keys=False)",
     'metadata keys not sorted'),
    ('m05_blank_line_bumps_linenum', 'C03', R,
     "            if header.strip():\n                break\n",
     "            if header.strip():\n                break\n\n            self._linenum += 1\n",
     'blank separator lines counted as logical lines'),
    ('m06_format_default_required', 'C03', R,
     "options.get('format', 'json')", "options.get('format')",
     'metadata without format= rejected'),
    ('m07_reader_pop_one', 'C04', R,
     "                        for i in range(prev_container_level - level + 1):\n                            encodings.pop()\n",
     "                        encodings.pop()\n",
     'the original F1 defect'),
    ('m08_diff_inherits_encoding', 'C04', W,
     "            type=diff_type,\n            inherit_encoding=False)",
     "            type=diff_type)",
     'writer lets diffs inherit the container encoding'),
    ('m09_dom_length_kept', 'C05', DR,
     "        options.pop('length', None)\n", "",
     'DOM keeps length in section options'),
    ('m10_dom_skip_falsy_indent', 'C06', DW,
     "        except KeyError:\n            return options\n",
     "        except KeyError:\n            return {k: v for k, v in options.items() if v}\n",
     'DOM writer drops falsy option values (indent=0)'),
    ('m11_length_minus_one', 'C07', R,
     "            content = fp.read(length)\n",
     "            content = fp.read(length) if length else fp.read()\n",
     'length=0 reads to EOF'),
    ('m12_decode_error_escapes', 'C08', R,
     "            except UnicodeError as e:\n", "            except LookupError as e:\n",
     'undecodable content escapes again'),
    ('m13_stream_not_closed_on_error', 'C08', DR,
     "        with stream:\n            reader = self.reader_cls(stream)\n",
     "        if True:\n            reader = self.reader_cls(stream)\n",
     'stream never closed'),
    ('m14_validate_after_pop', 'C09', W,
     "        section = self._build_section(section_level, section_name)\n        self._validate_section(section)\n\n        # Write the header before",
     "        section = self._build_section(section_level, section_name)\n\n        for i in range(self._cur_section_level - section_level + 1):\n            self._stack.pop()\n\n        self._validate_section(section)\n\n        # Write the header before",
     'stack popped before order validation'),
    ('m15_header_before_prepare', 'C09', W,
     "        content, line_endings = self._prepare_content(\n            content,\n            line_endings=line_endings,\n            indent=indent,\n            encoding=encoding,\n            inherit_encoding=inherit_encoding)\n\n        header_options = dict(options, **{\n            'encoding': encoding,\n            'indent': indent,\n            'length': len(content),\n        })\n",
     "        self.fp.write(b'')\n        self._prev_section = section\n        content, line_endings = self._prepare_content(\n            content,\n            line_endings=line_endings,\n            indent=indent,\n            encoding=encoding,\n            inherit_encoding=inherit_encoding)\n\n        header_options = dict(options, **{\n            'encoding': encoding,\n            'indent': indent,\n            'length': len(content),\n        })\n",
     'previous-section state updated before content validation'),
    ('m16_state_table_change_after_change', 'C10', S,
     "    Section.CHANGE: {\n        Section.CHANGE_PREAMBLE,",
     "    Section.CHANGE: {\n        Section.CHANGE,\n        Section.CHANGE_PREAMBLE,",
     'change may follow change'),
    ('m17_key_allows_leading_digit', 'C11', R,
     "br'[A-Za-z][A-Za-z0-9_-]*'", "br'[A-Za-z0-9][A-Za-z0-9_-]*'",
     'option keys may start with a digit'),
    ('m18_options_case_folded', 'C12', R,
     "                options[option_key] = option_value\n",
     "                options[option_key.lower()] = option_value\n",
     'option keys lower-cased'),
    ('m19_stats_assign_not_update', 'C13', O,
     "        if 'stats' in self.meta:\n            self.meta['stats'].update(stats)\n        else:\n            self.meta['stats'] = stats\n\n    def _setup_state(self):\n        \"\"\"Set up subsections and subsection-related state.\"\"\"\n        self.meta_section = DiffXMetaSection(parent_section=self)\n        self.diff_section",
     "        self.meta['stats'] = stats\n\n    def _setup_state(self):\n        \"\"\"Set up subsections and subsection-related state.\"\"\"\n        self.meta_section = DiffXMetaSection(parent_section=self)\n        self.diff_section",
     'file stats overwrite custom keys'),
    ('m20_hunk_marker_counts', 'C14', U,
     "            elif line.strip() != NO_NEWLINE_MARKER:",
     "            elif line != NO_NEWLINE_MARKER:",
     'marker with trailing whitespace is garbage'),
    ('m21_bom_table_literal', 'C15', T,
     "        try:\n            encoding = codecs.lookup(encoding).name\n        except LookupError:\n            pass\n",
     "        encoding = encoding.lower()\n",
     'BOM lookup only lower-cases the name'),
    ('m22_split_keep_ends_last', 'C16', T,
     "    elif keep_ends:\n        lines[-1] = lines[-1][:-len(newline)]\n",
     "",
     'keep_ends appends a newline to an unterminated last line'),
    ('m23_seek_back_off_by_one', 'C17', R,
     "                s.write(chunk[:i + 1])\n                fp.seek(i + 1 - len(chunk), os.SEEK_CUR)\n",
     "                s.write(chunk[:i + 1])\n                if len(chunk) > i + 1:\n                    fp.seek(i + 1 - len(chunk), os.SEEK_CUR)\n                elif chunk_size == 1:\n                    fp.seek(0, os.SEEK_CUR)\n",
     'harmless variant (control: must NOT be caught)'),
    ('m24_default_value_shared', 'C18', O,
     "            self._content = deepcopy(self.default_value)\n",
     "            self._content = self.default_value\n",
     'default metadata dict shared between sections'),
    ('m25_store_before_validate', 'C19', P,
     "        if self.choices and value not in self.choices:\n            raise DiffXOptionValueChoiceError(\n                option=self.option_name,\n                value=value,\n                choices=self.choices)\n\n        instance.options[self.option_name] = value\n",
     "        instance.options[self.option_name] = value\n\n        if self.choices and value not in self.choices:\n            raise DiffXOptionValueChoiceError(\n                option=self.option_name,\n                value=value,\n                choices=self.choices)\n",
     'option stored before the choice check'),
    ('m26_eq_ignores_content', 'C19', O,
     "            super(BaseDiffXContentSection, self).__eq__(other) and\n            self.content == other.content\n",
     "            super(BaseDiffXContentSection, self).__eq__(other)\n",
     'content ignored by equality'),
    ('m27_lexer_drops_newline_group', 'C20', L,
     "    _header_options = r'(?:( )([^\\n]*))?(\\n)'",
     "    _header_options = r'(?:( )([^\\n]*))?(?:\\n)'",
     'header newline no longer captured -> lost from tokens'),
    ('m28_read_until_chunk_boundary', 'C17', R,
     "            i = chunk.find(c)\n",
     "            i = chunk.find(c, 0, chunk_size - 1) if len(chunk) == chunk_size and chunk_size > 8 else chunk.find(c)\n",
     'delimiter in the last byte of a full chunk is missed'),
]


def main():
    out = os.path.join(ROOT, 'mutants')
    os.makedirs(out, exist_ok=True)
    index = []
    for mid, prop, rel, old, new, note in MUTANTS:
        path = os.path.join(REPO, rel)
        src = open(path).read()
        if src.count(old) != 1:
            print('SKIP %s: anchor found %d times' % (mid, src.count(old)))
            continue
        dst = src.replace(old, new)
        diff = ''.join(difflib.unified_diff(
            src.splitlines(True), dst.splitlines(True),
            'a/' + rel, 'b/' + rel))
        with open(os.path.join(out, mid + '.patch'), 'w') as fh:
            fh.write(diff)
        index.append({'id': mid, 'property': prop, 'file': rel,
                      'note': note})
    with open(os.path.join(out, 'index.json'), 'w') as fh:
        json.dump(index, fh, indent=1)
    print('%d mutants written' % len(index))


if __name__ == '__main__':
    main()
