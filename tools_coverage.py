#!/usr/bin/env python3
"""Which statement lines of pydiffx were executed by NO check? (intersection
of the never-executed lists of all evidence files; function-relative line
numbers are turned back into source lines for reading)."""
import json, glob, os, sys, ast
ROOT = os.path.dirname(os.path.abspath(__file__))
never = {}
seen_in = {}
for f in sorted(glob.glob(os.path.join(ROOT, 'evidence', 'C*.json'))):
    cov = json.load(open(f))['coverage']
    lc = cov.get('line_coverage', {})
    nv = cov.get('lines_never_executed(relative to def)', {})
    for k in lc:
        seen_in.setdefault(k, []).append(os.path.basename(f)[:3])
        miss = set(nv.get(k, []))
        never[k] = miss if k not in never else (never[k] & miss)
repo = os.environ.get('VERIF_REPO', '/repo')
def src_lines(key):
    fn, qual = key.split(':', 1)
    path = os.path.join(repo, 'python', 'pydiffx', fn)
    tree = ast.parse(open(path).read())
    name = qual.split('.')[-1]
    for node in ast.walk(tree):
        if isinstance(node, (ast.FunctionDef,)) and node.name == name:
            # pick the one whose qualname matches best (class name check)
            return path, node.lineno
    return path, None
tot = 0
for k in sorted(never):
    if not never[k]:
        continue
    path, first = src_lines(k)
    tot += len(never[k])
    print('%s  (entered by %s): %d lines never executed' % (k, ','.join(seen_in[k]), len(never[k])))
    if first and '-v' in sys.argv:
        src = open(path).read().splitlines()
        for rel in sorted(never[k]):
            print('    %5d  %s' % (first + rel, src[first + rel - 1].rstrip()[:100]))
print('total never-executed lines in entered functions: %d' % tot)
