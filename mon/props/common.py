"""Helpers shared by the property modules: driving the real reader/writer
under monitors, projecting records, strict comparisons."""
import io

from mon.oracle import jsoncanon
from mon.monitor.streams import MonitoredStream, consumption


def strict_equal(a, b):
    """JSON-value equality that distinguishes bool/int/float and str/bytes.
    """
    if type(a) is not type(b):
        return False
    if isinstance(a, dict):
        if a.keys() != b.keys():
            return False
        return all(strict_equal(a[k], b[k]) for k in a)
    if isinstance(a, (list, tuple)):
        return len(a) == len(b) and all(strict_equal(x, y)
                                        for x, y in zip(a, b))
    if isinstance(a, float) and a != a:
        return b != b          # NaN denotes the same value as NaN
    return a == b


FIELDS = ('section', 'level', 'line', 'type', 'options')
CONTENT = ('text', 'metadata', 'diff')


def project(rec):
    out = {k: rec.get(k) for k in FIELDS}
    out['options'] = dict(rec.get('options') or {})
    for k in CONTENT:
        if k in rec:
            out[k] = rec[k]
    return out


PREFIXES = [b'', b'', b'', b'X', b'From: someone\r\n\r\n',
            b'#diffx: version=1.0\n#.change:\n', b'\x00' * 97, b'p' * 4099]
_rr = {'n': 0}


def read_records(data, stream=None, limit=None, offset=None):
    """Iterate the real streaming reader over ``data``.

    Returns (records, exc, stream). Records are projected *copies* taken at
    the moment of the yield; afterwards the yielded objects are emptied (they
    belong to the consumer, and a reader must not depend on them).
    Every few calls the document is placed at a non-zero offset of the stream
    (an envelope precedes it and the stream is positioned at the document):
    the reader must not care where in a stream the document starts."""
    from pydiffx.reader import DiffXReader
    import copy
    if stream is None:
        _rr['n'] += 1
        if offset is None:
            offset = len(PREFIXES[_rr['n'] % len(PREFIXES)])
        if offset:
            stream = MonitoredStream(b'\x01' * offset + data)
            stream._s.seek(offset)
            stream.start = offset
        else:
            stream = MonitoredStream(data)
    recs = []
    exc = None
    it = None
    try:
        it = iter(DiffXReader(stream))
    except Exception as e:
        exc = e
    while it is not None:
        try:
            r = next(it)
        except StopIteration:
            break
        except Exception as e:  # classified by the caller
            exc = e
            break
        # from here on it is the harness at work, not the reader
        try:
            recs.append(copy.deepcopy(project(r)))
        except RecursionError:
            # metadata nested deeper than this stack can copy
            recs.append(project(r))
            _rr['uncopied'] = _rr.get('uncopied', 0) + 1
            continue
        try:
            for v in r.values():
                if isinstance(v, dict):
                    v.clear()
            r.clear()
        except Exception:
            pass
        if limit is not None and len(recs) >= limit:
            break
    return recs, exc, stream


def diff_records(expected, got, ignore=()):
    """First difference between expected and observed record lists as a
    (mechanism, detail) pair, or None."""
    for i, (e, g) in enumerate(zip(expected, got)):
        for k in ('section', 'level', 'type'):
            if e.get(k) != g.get(k):
                return ('record_%s_differs' % k,
                        {'index': i, 'expected': e.get(k), 'got': g.get(k)})
        if 'line' not in ignore and e.get('line') != g.get('line'):
            return ('record_line_differs',
                    {'index': i, 'section': e['section'],
                     'expected': e.get('line'), 'got': g.get('line')})
        eo, go = e.get('options', {}), g.get('options', {})
        for k in sorted(set(eo) | set(go)):
            if k in ignore:
                continue
            if k not in go:
                return ('option_missing:%s' % k,
                        {'index': i, 'section': e['section'],
                         'expected': eo[k]})
            if k not in eo:
                return ('option_unexpected:%s' % k,
                        {'index': i, 'section': e['section'], 'got': go[k]})
            if not strict_equal(eo[k], go[k]):
                return ('option_value_differs:%s' % k,
                        {'index': i, 'section': e['section'],
                         'expected': eo[k], 'got': go[k]})
        for k in CONTENT:
            if (k in e) != (k in g):
                return ('content_field_%s_presence' % k,
                        {'index': i, 'section': e['section']})
            if k in e and not strict_equal(e[k], g[k]):
                return ('content_differs:%s' % k,
                        {'index': i, 'section': e['section'],
                         'expected': e[k], 'got': g[k]})
    if len(expected) != len(got):
        return ('record_count_differs',
                {'expected': len(expected), 'got': len(got),
                 'expected_ids': [e['section'] for e in expected],
                 'got_ids': [g['section'] for g in got]})
    return None


def diff_records_tolerant(expected, got, data, want, layout):
    """diff_records, but a different ``length`` / ``line`` is tolerated when
    the bytes read differ from the oracle's only in JSON spelling."""
    d = diff_records(expected, got)
    if d is not None and data != want and d[0] in (
            'option_value_differs:length', 'record_line_differs'):
        ok, mech, _ = bytes_equivalent(data, want, layout)
        if ok:
            return diff_records(expected, got, ignore=('length', 'line'))
    return d


def is_parse_error(exc):
    """DiffXParseError or any subclass of it."""
    from pydiffx.errors import DiffXParseError
    return isinstance(exc, DiffXParseError)


def exc_mechanism(exc):
    """(class name, innermost pydiffx function) of an exception."""
    import traceback
    tb = traceback.extract_tb(exc.__traceback__)
    where = '?'
    for fr in reversed(tb):
        fn = fr.filename.replace('\\', '/')
        if '/pydiffx/' in fn and '/tests/' not in fn:
            where = '%s.%s' % (fn.split('/pydiffx/')[-1][:-3].replace('/', '.'),
                               fr.name)
            break
    return '%s@%s' % (type(exc).__name__, where)


def check_consumption(stream, obs, tag='consumption'):
    fails, pos, high = consumption(stream)
    obs.count('stream_events', len(stream.events))
    for f in fails:
        obs.count('%s_fail:%s' % (tag, f))
    return fails


def encstack_probe(gen):
    """Diagnostic: encoding stack of the reader generator, if reachable."""
    try:
        fr = gen.gi_frame
        if fr is None:
            return None
        return list(fr.f_locals.get('encodings') or [])
    except Exception:
        return None


# ------------------------------------------------------------------ byte
# comparison of writer output with the oracle serializer, tolerant of JSON
# string-escape style / number spelling (the specification fixes key order,
# indentation and separators of metadata, not how strings are escaped)
def attribute(data, want, secs, layout):
    """Where do writer bytes and oracle bytes part? Returns (mechanism,
    detail); (None, None) when the only difference is JSON spelling."""
    if len(secs) != len(layout):
        return 'section_count', {'got': [s['id'] for s in secs],
                                 'want': [s['id'] for s in layout]}
    only_json = True
    for i, (s, w) in enumerate(zip(secs, layout)):
        if s['id'] != w['id']:
            return 'section_id', {'index': i, 'got': s['id'],
                                  'want': w['id']}
        hgot = data[s['hoff']:data.index(b'\n', s['hoff']) + 1]
        hwant = want[w['hoff']:w['hoff'] + w['hlen']]
        go = dict(s['options'])
        wo = dict(w['options'])
        if w['kind'] == 'meta':
            # compare header modulo length, content by JSON denotation
            go.pop('length', None)
            wo.pop('length', None)
            if go != wo:
                return 'header_options', {'index': i, 'got': hgot,
                                          'want': hwant}
            raw_w = want[w['coff']:w['coff'] + w['clen']]
            if s.get('raw') != raw_w:
                try:
                    a = s['raw'].decode(s['codec'])
                    b = raw_w.decode(w['codec'])
                except Exception:
                    return 'meta_bytes', {'index': i}
                if not jsoncanon.same_layout(a, b):
                    return 'meta_json_layout', {'index': i, 'got': a[:300],
                                                'want': b[:300]}
            continue
        if hgot != hwant:
            return 'header_bytes', {'index': i, 'got': hgot, 'want': hwant}
        if w['kind'] != 'container':
            raw_w = want[w['coff']:w['coff'] + w['clen']]
            if s.get('raw') != raw_w:
                return '%s_content_bytes' % w['kind'], {
                    'index': i, 'got': s.get('raw', b'')[:200],
                    'want': raw_w[:200]}
    if only_json:
        return None, None
    return 'bytes', {}




def bytes_equivalent(data, want, layout):
    """(ok, mechanism, detail): ok when data == want, or when they differ
    only in the spelling of JSON strings / numbers of metadata sections (with
    the declared length following the actual bytes)."""
    if data == want:
        return True, None, None
    from mon.oracle import scanner
    secs, problems = scanner.scan(data)
    if problems:
        return False, 'unscannable:%s' % problems[0][0], {'offset': problems[0][1]}
    mech, detail = attribute(data, want, secs, layout)
    if mech is None:
        return True, 'json_spelling', None
    return False, mech, detail


# ------------------------------------------------------------ concurrency
# Independent objects (two writers, two readers, two trees) used at the same
# time from different threads, or as interleaved generators in one thread,
# must behave exactly as each does alone: every property quantifies over the
# calls made on *one* object and is silent about what else the process does.
def _outcome(thunk):
    try:
        return ('ok', thunk())
    except Exception as e:
        return ('exc', type(e).__name__)


def check_concurrent(obs, rng, cases, make_thunk, tag, p=None, seed=None,
                     extra_files=()):
    """Run make_thunk(case)() for every case alone, then all of them under
    the seeded baton scheduler; any difference is a violation
    ``concurrent:<tag>:...``. Returns True when everything agreed."""
    import random
    from mon.monitor import sched
    if not sched.available():
        obs.count('concurrent:unavailable')
        return True
    if seed is None:
        seed = rng.getrandbits(48)
    if p is None:
        p = rng.choice([0.02, 0.08, 0.25])
    solo = [_outcome(make_thunk(c)) for c in cases]
    thunks = [make_thunk(c) for c in cases]
    res, s = sched.concurrently(random.Random(seed), thunks, p, extra_files)
    obs.count('concurrent:%s:groups' % tag)
    obs.count('concurrent:%s:workers' % tag, len(cases))
    obs.count('concurrent:scheduling_points', s.points)
    obs.count('concurrent:switches', s.switches)
    if s.forced:
        obs.count('concurrent:forced_handovers', s.forced)
    case = {'concurrent': tag, 'cases': cases, 'sched_seed': seed, 'p': p}
    ok = True
    for i, (so, r) in enumerate(zip(solo, res)):
        if r[0] == 'hung':
            obs.inconclusive_because('a concurrent %s worker did not finish '
                                     'within the watchdog' % tag)
            return False
        got = ('exc', type(r[1]).__name__) if r[0] == 'exc' else r
        if got[0] != so[0] or not strict_equal(got[1], so[1]):
            if got[0] == 'exc' and so[0] == 'ok':
                mech = 'concurrent:%s:raises_only_when_concurrent:%s' % (
                    tag, got[1])
            else:
                mech = 'concurrent:%s:result_differs_from_solo' % tag
            obs.violation(mech, case, {
                'worker': i, 'switches': s.switches,
                'solo': repr(so)[:300], 'concurrent': repr(got)[:300]})
            ok = False
            break
    return ok


def replay_concurrent(case, obs, make_thunk):
    import random
    for attempt in range(20):
        # the schedule is a function of the seed unless a hand-over had to
        # be forced; a handful of neighbouring seeds covers that
        if not check_concurrent(obs, random.Random(attempt), case['cases'],
                                make_thunk, case['concurrent'], p=case['p'],
                                seed=case['sched_seed'] + attempt):
            return


def interleave_readers(datas):
    """Step one DiffXReader per document round-robin in this thread (like
    ``zip(reader1, reader2)``); returns per document (records, exc name)."""
    from pydiffx.reader import DiffXReader
    import copy
    gens = [iter(DiffXReader(io.BytesIO(d))) for d in datas]
    out = [([], None) for _ in datas]
    live = list(range(len(datas)))
    while live:
        for i in list(live):
            try:
                r = next(gens[i])
                out[i][0].append(copy.deepcopy(project(r)))
            except StopIteration:
                live.remove(i)
            except Exception as e:
                out[i] = (out[i][0], type(e).__name__)
                live.remove(i)
    return out


def check_interleaved_readers(obs, datas, tag='readers'):
    """Interleaved iteration must give each document what reading it alone
    gives."""
    solo = []
    for d in datas:
        recs, exc, _ = read_records(d, offset=0)
        solo.append((recs, type(exc).__name__ if exc else None))
    got = interleave_readers(datas)
    obs.count('interleaved:%s:groups' % tag)
    for i, (s, g) in enumerate(zip(solo, got)):
        if s[1] != g[1] or diff_records(s[0], g[0]) is not None:
            obs.violation('interleaved:%s:result_differs_from_solo' % tag,
                          {'interleaved': tag, 'datas': list(datas)},
                          {'document': i, 'solo_exc': s[1], 'got_exc': g[1],
                           'diff': diff_records(s[0], g[0])})
            return False
    return True


def reader_thunk(data):
    def thunk():
        recs, exc, _ = read_records(data, offset=0)
        return [recs, type(exc).__name__ if exc else None]
    return thunk


def reader_concurrency_pass(ctx, gen_data, n_groups, tag='readers'):
    """Groups of 2-4 documents (from ``gen_data(rng) -> bytes``): one reader
    per document, (a) in threads under the seeded scheduler and (b) stepped
    round-robin as generators in one thread; each must yield what it yields
    alone."""
    rng = ctx.rng
    for _ in range(n_groups):
        datas = [gen_data(rng) for _ in range(rng.randint(2, 4))]
        ctx.obs.case(('concurrent', datas))
        check_interleaved_readers(ctx.obs, datas, tag)
        check_concurrent(ctx.obs, rng, datas, reader_thunk, tag)


def replay_reader_concurrency(case, obs):
    if 'interleaved' in case:
        return check_interleaved_readers(obs, case['datas'],
                                         case['interleaved'])
    return replay_concurrent(case, obs, reader_thunk)


# ------------------------------------------------------------ real streams
# What programs actually hand to the reader: a buffered or unbuffered file,
# or a decompressing stream over a .diffx.gz / .bz2 / .xz (whose fileno()
# and on-disk size describe the compressed file, not the document).
STREAM_KINDS = ('file', 'file_unbuffered', 'file_small_buffer', 'gzip',
                'bz2', 'lzma')


def _scratch_dir():
    import tempfile
    import os
    base = '/dev/shm' if os.path.isdir('/dev/shm') else None
    return tempfile.mkdtemp(prefix='verif-streams-', dir=base)


def read_via_real_streams(data, kinds=STREAM_KINDS):
    """{kind: (records, exception)} of reading ``data`` through each kind of
    real stream."""
    import bz2
    import gzip
    import lzma
    import os
    import shutil
    d = _scratch_dir()
    out = {}
    try:
        for kind in kinds:
            path = os.path.join(d, 'doc.diffx')
            if kind == 'gzip':
                path += '.gz'
                with gzip.open(path, 'wb') as fh:
                    fh.write(data)
                op = lambda: gzip.open(path, 'rb')  # noqa
            elif kind == 'bz2':
                path += '.bz2'
                with bz2.open(path, 'wb') as fh:
                    fh.write(data)
                op = lambda: bz2.open(path, 'rb')  # noqa
            elif kind == 'lzma':
                path += '.xz'
                with lzma.open(path, 'wb') as fh:
                    fh.write(data)
                op = lambda: lzma.open(path, 'rb')  # noqa
            else:
                with open(path, 'wb') as fh:
                    fh.write(data)
                buffering = {'file': -1, 'file_unbuffered': 0,
                             'file_small_buffer': 17}[kind]
                op = lambda: open(path, 'rb', buffering=buffering)  # noqa
            with op() as fh:
                recs, exc, _ = read_records(data, stream=MonitoredStream(
                    raw=fh))
            out[kind] = (recs, exc)
    finally:
        shutil.rmtree(d, ignore_errors=True)
    return out


def check_real_streams(data, obs, case, kinds=STREAM_KINDS, tag='stream'):
    """Reading through any real stream must give what reading the same
    bytes from memory gives (records; same kind of outcome)."""
    base, bexc, _ = read_records(data, offset=0)
    got = read_via_real_streams(data, kinds)
    for kind, (recs, exc) in got.items():
        obs.count('real_stream_reads:%s' % kind)
        same_outcome = (exc is None) == (bexc is None) and (
            exc is None or is_parse_error(exc) == is_parse_error(bexc))
        if not same_outcome or diff_records(base, recs) is not None:
            obs.violation('%s_kind_changes_outcome:%s' % (
                tag, 'compressed' if kind in ('gzip', 'bz2', 'lzma')
                else kind), dict(case, stream_kind=kind),
                {'in_memory': repr(bexc)[:200], 'through_stream':
                 repr(exc)[:200], 'diff': diff_records(base, recs)})
            return False
    return True
