"""Helpers shared by the property modules: driving the real reader/writer
under monitors, projecting records, strict comparisons."""
import io

from mon.monitor.streams import MonitoredStream, consumption


def strict_equal(a, b):
    """JSON-value equality that distinguishes bool/int/float and str/bytes.
    """
    if type(a) is not type(b):
        return False
    if isinstance(a, dict):
        if a.keys() != b.keys():
            return False
        return all(strict_equal(a[k], b[k]) for k in a)
    if isinstance(a, (list, tuple)):
        return len(a) == len(b) and all(strict_equal(x, y)
                                        for x, y in zip(a, b))
    if isinstance(a, float) and a != a:
        return b != b          # NaN denotes the same value as NaN
    return a == b


FIELDS = ('section', 'level', 'line', 'type', 'options')
CONTENT = ('text', 'metadata', 'diff')


def project(rec):
    out = {k: rec.get(k) for k in FIELDS}
    out['options'] = dict(rec.get('options') or {})
    for k in CONTENT:
        if k in rec:
            out[k] = rec[k]
    return out


PREFIXES = [b'', b'', b'', b'X', b'From: someone\r\n\r\n',
            b'#diffx: version=1.0\n#.change:\n', b'\x00' * 97, b'p' * 4099]
_rr = {'n': 0}


def read_records(data, stream=None, limit=None, offset=None):
    """Iterate the real streaming reader over ``data``.

    Returns (records, exc, stream). Records are projected *copies* taken at
    the moment of the yield; afterwards the yielded objects are emptied (they
    belong to the consumer, and a reader must not depend on them).
    Every few calls the document is placed at a non-zero offset of the stream
    (an envelope precedes it and the stream is positioned at the document):
    the reader must not care where in a stream the document starts."""
    from pydiffx.reader import DiffXReader
    import copy
    if stream is None:
        _rr['n'] += 1
        if offset is None:
            offset = len(PREFIXES[_rr['n'] % len(PREFIXES)])
        if offset:
            stream = MonitoredStream(b'\x01' * offset + data)
            stream._s.seek(offset)
            stream.start = offset
        else:
            stream = MonitoredStream(data)
    recs = []
    exc = None
    try:
        for r in DiffXReader(stream):
            recs.append(copy.deepcopy(project(r)))
            try:
                for v in r.values():
                    if isinstance(v, dict):
                        v.clear()
                r.clear()
            except Exception:
                pass
            if limit is not None and len(recs) >= limit:
                break
    except Exception as e:  # classified by the caller
        exc = e
    return recs, exc, stream


def diff_records(expected, got, ignore=()):
    """First difference between expected and observed record lists as a
    (mechanism, detail) pair, or None."""
    for i, (e, g) in enumerate(zip(expected, got)):
        for k in ('section', 'level', 'type'):
            if e.get(k) != g.get(k):
                return ('record_%s_differs' % k,
                        {'index': i, 'expected': e.get(k), 'got': g.get(k)})
        if 'line' not in ignore and e.get('line') != g.get('line'):
            return ('record_line_differs',
                    {'index': i, 'section': e['section'],
                     'expected': e.get('line'), 'got': g.get('line')})
        eo, go = e.get('options', {}), g.get('options', {})
        for k in sorted(set(eo) | set(go)):
            if k in ignore:
                continue
            if k not in go:
                return ('option_missing:%s' % k,
                        {'index': i, 'section': e['section'],
                         'expected': eo[k]})
            if k not in eo:
                return ('option_unexpected:%s' % k,
                        {'index': i, 'section': e['section'], 'got': go[k]})
            if not strict_equal(eo[k], go[k]):
                return ('option_value_differs:%s' % k,
                        {'index': i, 'section': e['section'],
                         'expected': eo[k], 'got': go[k]})
        for k in CONTENT:
            if (k in e) != (k in g):
                return ('content_field_%s_presence' % k,
                        {'index': i, 'section': e['section']})
            if k in e and not strict_equal(e[k], g[k]):
                return ('content_differs:%s' % k,
                        {'index': i, 'section': e['section'],
                         'expected': e[k], 'got': g[k]})
    if len(expected) != len(got):
        return ('record_count_differs',
                {'expected': len(expected), 'got': len(got),
                 'expected_ids': [e['section'] for e in expected],
                 'got_ids': [g['section'] for g in got]})
    return None


def exc_mechanism(exc):
    """(class name, innermost pydiffx function) of an exception."""
    import traceback
    tb = traceback.extract_tb(exc.__traceback__)
    where = '?'
    for fr in reversed(tb):
        fn = fr.filename.replace('\\', '/')
        if '/pydiffx/' in fn and '/tests/' not in fn:
            where = '%s.%s' % (fn.split('/pydiffx/')[-1][:-3].replace('/', '.'),
                               fr.name)
            break
    return '%s@%s' % (type(exc).__name__, where)


def check_consumption(stream, obs, tag='consumption'):
    fails, pos, high = consumption(stream)
    obs.count('stream_events', len(stream.events))
    for f in fails:
        obs.count('%s_fail:%s' % (tag, f))
    return fails


def encstack_probe(gen):
    """Diagnostic: encoding stack of the reader generator, if reachable."""
    try:
        fr = gen.gi_frame
        if fr is None:
            return None
        return list(fr.f_locals.get('encodings') or [])
    except Exception:
        return None
