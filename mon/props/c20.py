"""C20 - the syntax highlighter is lossless and tags every section header."""
import re

from mon.core import Watchdog, CaseTimeout
from mon.gen import recipe, texts
from mon.monitor.streams import MonitoredStream
from mon.oracle.serializer import serialize
from mon.props import common

LEVEL = 'exploration'
RULE = ('(1) random strings assembled from DiffX-shaped fragments (headers '
        'with and without newline, "...", "delta N", JSON and diff snippets, '
        'CR, NUL, non-ASCII, up to 4 kB) are tokenised with the real '
        'DiffXLexer (get_tokens_unprocessed); token offsets must be '
        'contiguous from 0 and the concatenated values must equal the input; '
        'a 20 s watchdog turns non-termination into "inconclusive". (2) '
        'UTF-8 files written by the real DiffXWriter from random recipes '
        'whose content contains no "#." sequence: no Error token may appear '
        'and the Name.Tag tokens of the form #.{0,3}name: must be exactly '
        'the headers of the file (text and offset, from the spec serializer '
        'layout) in order. Non-trivial = input contains "#"; distinct = '
        'fingerprint of the text.')
RULE += (
         ' Also: one lexer object tokenising 2-3 texts at once (token '
         'streams consumed round-robin, and in threads under the seeded '
         'scheduler) must yield for each text what a fresh lexer yields. '
         'Process axes (DESIGN 2.8): 2 of 16 shards run under python -O, 4 '
         'of 16 after a hostile warm-up of the library.')
FLOOR = {'quick': 8000, 'thorough': 200000}
REQUIRED_REACH = []
REQUIRED_COUNTERS = ['random_strings', 'writer_files', 'header_tokens_checked']
ASSUMPTIONS = ['Pygments %s from /venv is the tokeniser engine',
               'get_tokens_unprocessed is the lossless interface (get_tokens '
               'normalises newlines by design)']

FRAGMENTS = [
    '#diffx: encoding=utf-8, version=1.0\n', '#diffx:', '#.change:\n',
    '#.change: encoding=utf-16\n', '#..file:\n', '#..file:',
    '#.preamble: indent=4, length=10\n', '#..preamble: length=5\n',
    '#.meta: format=json, length=20\n', '#..meta:\n', '#...meta: length=3\n',
    '#...diff: length=20\n', '#...diff:\n', '#...diff: type=binary\n',
    '#....diff:\n', '#.', '#..', '#...', '#', '...\n', '...', 'delta 12\n',
    'delta x\n', '{\n    "k": "v"\n}\n', '{"a": [1, 2, {"b": null}]}',
    '{', '"', "'", '--- a/file\n', '+++ b/file\n', '@@ -1 +1 @@\n', '-a\n',
    '+b\n', ' c\n', '\\ No newline at end of file\n', 'Index: x\n',
    'diff --git a b\n', '    indented\n', 'delta 14\r\n', 'literal 3\r\n',
    'delta 7\r', '#...diff: length=9, line_endings=dos\ndelta 14\r\n',
    '#...diff: type=binary\nliteral 5\r\nzabc\r\n', '\n', '\r\n', '\r', '\x00',
    'é', '日本', '\U0001f600', '﻿', '\t', ' ', 'plain text\n', '=',
    ',', ':', '#.z', '#.preamble:', '#...meta: \n', 'x' * 50,
    # option lists that invite regex backtracking
    'a=b, ' * 30, 'k=' * 45 + ',draft\n',
    'u=http://x/?' + 'p=1&' * 40 + ',X\n',
    '#.change: ' + 'a=a=' * 25 + ',x\n', ', ' * 40, '=,' * 40,
]
#: "terminates", restated as bounded progress: inputs are <= 4 kB and the
#: lexer of the unchanged tree needs < 50 ms of CPU time for any of them
CPU_BUDGET_S = 5.0
HEADER_TOKEN = re.compile(r'^#\.{0,3}[a-z]+:$')


_shared = {}


def lexer():
    from pydiffx.integrations.pygments_lexer import DiffXLexer
    return DiffXLexer()


def tokenize(text):
    # alternate between a fresh lexer and one instance reused for every
    # input of the run (state must not leak from one text into the next)
    if 'lx' not in _shared:
        _shared['lx'] = lexer()
        _shared['n'] = 0
    _shared['n'] += 1
    lx = _shared['lx'] if _shared['n'] % 2 else lexer()
    return list(lx.get_tokens_unprocessed(text))


def check_lossless(text, obs, tag):
    case = {'text': text}
    obs.case(text, nontrivial='#' in text)
    obs.count(tag)
    import time
    cpu0 = time.thread_time()
    try:
        with Watchdog(20):
            toks = tokenize(text)
    except CaseTimeout:
        obs.count('watchdog_fired')
        used = time.thread_time() - cpu0
        if used >= CPU_BUDGET_S:
            # not a wall-clock verdict: this thread itself burnt the CPU
            # time (>= 200x what the unchanged lexer needs for 4 kB)
            obs.violation('tokenising_does_not_finish_within_cpu_budget',
                          case, {'cpu_seconds': round(used, 1),
                                 'chars': len(text)})
        else:
            obs.inconclusive_because('tokenising exceeded the 20 s wall-clock '
                                     'watchdog with little CPU time used')
        return None
    except Exception as e:
        obs.violation('lexer_raised:%s' % type(e).__name__, case,
                      repr(e)[:200])
        return None
    pos = 0
    for idx, tt, val in toks:
        if idx != pos:
            obs.violation('token_offsets_not_contiguous', case,
                          {'at': idx, 'expected': pos})
            return None
        pos += len(val)
    if ''.join(v for _, _, v in toks) != text:
        obs.violation('tokens_do_not_reproduce_input', case)
        return None
    if pos != len(text):
        obs.violation('tokens_do_not_cover_input', case)
        return None
    return toks


_dict = {}


def dict_fragments():
    if 'v' not in _dict:
        try:
            from mon.gen import dictionary
            w = [x for x in dictionary.as_text() if len(x) < 40]
        except Exception:
            w = []
        out = []
        for x in w:
            out += [x, x + '\n', x + ' 5\n']
        _dict['v'] = out
    return _dict['v']


def rand_text(rng):
    n = rng.randint(0, 40)
    df = dict_fragments()
    parts = [rng.choice(df) if df and rng.random() < 0.12
             else rng.choice(FRAGMENTS) for _ in range(n)]
    if rng.random() < 0.1 and df:
        # a diff section that starts with library-specific marker lines
        parts.insert(rng.randint(0, len(parts)),
                     '#...diff: length=99\n' + rng.choice(df).rstrip('\n') +
                     '\n' + rng.choice(['literal 5\n', 'delta 7\n', 'x\n']))
    s = ''.join(parts)
    r = rng.random()
    if r < 0.15:
        s = s.replace('\n', '\r\n')      # a file converted to CRLF
    elif r < 0.2:
        s = s.replace('\n', '\r')
    return s[:4096]


def benign_doc(rng):
    """utf-8 everywhere, no '#.' in any content."""
    def clean(s):
        return s.replace('#.', '# .')

    def pre():
        t = clean(texts.text(rng, 'utf-8', lookalikes=False))
        mt = rng.choice([None, 'text/markdown', 'text/plain'])
        if mt == 'text/markdown' and rng.random() < 0.5:
            # markdown with fenced blocks in languages a highlighter knows,
            # with bodies that are not valid in them
            t = ('Title\n=====\n\n```json\n{bad json,,\n```\n\n' +
                 rng.choice(['```python\n$$$ ???\n```\n',
                             '```diff\n@@ nope\n```\n',
                             '~~~c\n#include <x>\n~~~\n']) + t)
        return {'text': t, 'encoding': None,
                'indent': rng.choice([0, 2, 4]),
                'line_endings': rng.choice([None, 'unix']),
                'mimetype': mt, 'explicit': True}

    def meta():
        obj = texts.json_object(rng)
        import json
        while '#.' in json.dumps(obj):
            obj = {'k': 'v'}
        m = {'obj': obj, 'encoding': None}
        if rng.random() < 0.15:
            m['line_endings'] = rng.choice(['dos', 'unix'])
        return m

    def diff():
        r0 = rng.random()
        if r0 < 0.08:
            # the whole diff is one marker line
            return {'data': rng.choice([b'delta 5\n', b'...\n', b'delta 0\n',
                                        b'literal 1\n', b'x\n', b'\n']),
                    'encoding': None, 'line_endings': None,
                    'type': rng.choice([None, 'binary'])}
        if r0 < 0.16:
            return {'data': b'GIT binary patch\n' + rng.choice(
                [b'literal 5\nzcmb\n', b'delta 12\nzzz\n\nliteral 3\nx\n']),
                    'encoding': None, 'line_endings': None, 'type': 'binary'}
        if rng.random() < 0.15:
            nl = rng.choice(['\n', '\r\n'])
            body = nl.join(['delta %d' % rng.randrange(99), 'zabc',
                            'literal %d' % rng.randrange(9), 'x', ''])
            return {'data': body.encode('utf-8'), 'encoding': None,
                    'line_endings': None, 'type': 'binary'}
        body = clean(texts.text(rng, 'utf-8', lookalikes=False))
        if rng.random() < 0.2:
            # a diff OF a binary patch / of prose about one: the marker
            # words inside ordinary diff lines, not at the start of a line
            body = ''.join(rng.choice([
                '+    delta %d\n', ' see delta %d\n', '-literal %d\n',
                '+GIT binary patch delta %d\n', ' x delta %d y\n',
                '+delta %d\n', ' literal %d\n', '@@ -1 +1 @@ delta %d\n',
                '+...\n', ' ... delta %d\n']).replace('%d', str(
                    rng.randrange(1000))) for _ in range(rng.randint(1, 6))
            ) + body
        return {'data': body.encode('utf-8'), 'encoding': None,
                'line_endings': None, 'type': rng.choice([None, 'text'])}
    doc = {'encoding': 'utf-8', 'changes': []}
    if rng.random() < 0.5:
        doc['preamble'] = pre()
    if rng.random() < 0.5:
        doc['meta'] = meta()
    for _ in range(rng.randint(1, 3)):
        ch = {'encoding': None, 'files': []}
        if rng.random() < 0.5:
            ch['preamble'] = pre()
        if rng.random() < 0.5:
            ch['meta'] = meta()
        for _ in range(rng.randint(1, 3)):
            f = {'encoding': None, 'meta': meta()}
            if rng.random() < 0.7:
                f['diff'] = diff()
            ch['files'].append(f)
        doc['changes'].append(ch)
    return doc


def check_writer_file(doc, obs):
    from pygments.token import Error, Name
    stream = MonitoredStream()
    try:
        recipe.run_writer(recipe.writer_calls(doc), stream)
    except Exception as e:
        obs.count('writer_raised(see C01)')
        return
    data = stream.getvalue()
    want, layout = serialize(doc)
    if data != want:
        obs.count('writer_differs_from_oracle(see C02)')
        return
    text = data.decode('utf-8')
    if '\r' in text:
        # the lexer's options rule assumes LF header lines; CR content is
        # still covered by the lossless part
        pass
    toks = check_lossless(text, obs, 'writer_files')
    if toks is None:
        return
    case = {'recipe': doc}
    errs = [(i, v) for i, t, v in toks if t in Error]
    if errs:
        obs.violation('error_token_in_benign_file', case,
                      {'first': list(errs[0]),
                       'around': text[max(0, errs[0][0] - 60):
                                      errs[0][0] + 40]})
        return
    # byte offsets -> character offsets
    got = [(i, v) for i, t, v in toks if t in Name.Tag and
           HEADER_TOKEN.match(v)]
    want_h = []
    for s in layout:
        coff = len(data[:s['hoff']].decode('utf-8'))
        want_h.append((coff, '#%s:' % s['id']))
    obs.count('header_tokens_checked', len(want_h))
    if got != want_h:
        k = next((j for j in range(min(len(got), len(want_h)))
                  if got[j] != want_h[j]), min(len(got), len(want_h)))
        obs.violation('header_tokens_differ_from_headers:%s' % (
            'missing' if len(got) < len(want_h) or k < len(want_h) and
            (k >= len(got) or got[k][0] > want_h[k][0]) else 'spurious'),
            case, {'index': k,
                   'got': got[k] if k < len(got) else None,
                   'want': want_h[k] if k < len(want_h) else None})


def tokens_thunk_for(lx):
    def make(text):
        def thunk():
            return [[i, str(t), v] for i, t, v in
                    lx.get_tokens_unprocessed(text)]
        return thunk
    return make


def check_shared_lexer(texts_, obs, rng):
    """One lexer object, several texts at once: token streams consumed
    round-robin in one thread, then in threads under the seeded scheduler.
    Each must equal what a fresh lexer yields for that text alone."""
    import time
    cpu0 = time.thread_time()
    try:
        with Watchdog(30):
            solo = [[[i, str(t), v] for i, t, v in
                     lexer().get_tokens_unprocessed(x)] for x in texts_]
    except (CaseTimeout, Exception):
        # tokenising one of the texts alone already fails: that is the
        # lossless pass's finding, not an interference
        obs.count('shared_lexer_group_skipped(solo run failed)')
        return
    if time.thread_time() - cpu0 > 1.0:
        # pathologically slow alone (the lossless pass judges that): no
        # point in interleaving it
        obs.count('shared_lexer_group_skipped(solo run slow)')
        return
    lx = lexer()
    gens = [lx.get_tokens_unprocessed(x) for x in texts_]
    got = [[] for _ in texts_]
    live = list(range(len(texts_)))
    case = {'shared_lexer': list(texts_)}
    obs.case(('shared', texts_), nontrivial=any('#' in x for x in texts_))
    obs.count('shared_lexer_groups')
    try:
        with Watchdog(30):
            while live:
                for i in list(live):
                    try:
                        a, t, v = next(gens[i])
                        got[i].append([a, str(t), v])
                    except StopIteration:
                        live.remove(i)
    except CaseTimeout:
        obs.inconclusive_because('tokenising exceeded the 30 s watchdog')
        return
    except Exception as e:
        obs.violation('interleaved:lexer_raised:%s' % type(e).__name__, case,
                      repr(e)[:200])
        return
    if got != solo:
        k = next(i for i in range(len(solo)) if got[i] != solo[i])
        j = next((j for j in range(min(len(got[k]), len(solo[k])))
                  if got[k][j] != solo[k][j]), None)
        obs.violation('interleaved:token_streams_of_one_lexer_interfere',
                      case, {'text_index': k, 'first_difference': j})
        return
    lx2 = lexer()
    import pygments.lexer
    common.check_concurrent(obs, rng, list(texts_), tokens_thunk_for(lx2),
                            'lexer', p=rng.choice([0.01, 0.05]),
                            extra_files=(pygments.lexer.__file__,))


def run(ctx):
    obs = ctx.obs
    rng = ctx.rng
    try:
        import pygments
        obs.notes.append('pygments %s' % pygments.__version__)
    except Exception:
        obs.inconclusive_because('pygments not importable')
        return
    for k in range(ctx.share(ctx.pick(16000, 400000))):
        t = rand_text(rng)
        check_lossless(t, obs, 'random_strings')
        if k == 0 and ctx.index == 0:
            obs.sample({'text': t[:300]})
    for k in range(ctx.share(ctx.pick(4000, 100000))):
        check_writer_file(benign_doc(rng), obs)
    for k in range(ctx.share(ctx.pick(200, 5000))):
        group = []
        for _ in range(rng.randint(2, 3)):
            if rng.random() < 0.5:
                try:
                    group.append(serialize(benign_doc(rng))[0].decode('utf-8'))
                    continue
                except Exception:
                    pass
            group.append(rand_text(rng))
        check_shared_lexer(group, obs, rng)


def replay(case, obs):
    import random
    if 'shared_lexer' in case:
        return check_shared_lexer(case['shared_lexer'], obs, random.Random(0))
    if 'concurrent' in case:
        return common.replay_concurrent(case, obs, tokens_thunk_for(lexer()))
    if 'recipe' in case:
        check_writer_file(case['recipe'], obs)
    else:
        check_lossless(case['text'], obs, 'replay')
