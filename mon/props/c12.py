"""C12 - unknown header options are carried through and change nothing else.
"""
import re

from mon.oracle import header_grammar as hg
from mon.props import common
from mon.props.c03 import gen_foreign

LEVEL = 'exploration'
RULE = ('metamorphic: a well-formed base file (spec serializer, canonical '
        'and foreign layouts) is read with the real DiffXReader; then 1-3 '
        'syntactically valid options the library does not know (incl. case '
        'variants of known names such as Length / line-endings / ENCODING, '
        'integer values, values up to 2 kB) are inserted into one or several '
        'headers at every insertion position and the file is read again: '
        'the records must be identical except that the affected records\' '
        'options additionally hold the new keys (integers converted). '
        'Non-trivial = extension applied to a header that already has '
        'options; distinct = fingerprint of the extended bytes.')
RULE += (
         ' Process axes (DESIGN 2.8): 2 of 16 shards run under python -O, 4 '
         'of 16 after a hostile warm-up of the library.')
FLOOR = {'quick': 20000, 'thorough': 400000}
REQUIRED_REACH = ['reader.py:']
REQUIRED_COUNTERS = ['extensions_checked', 'extended:container',
                     'extended:content']
ASSUMPTIONS = ['known option names: length, indent, encoding, line_endings, '
               'format, version, type, mimetype (exact, case-sensitive)']

KNOWN = {'length', 'indent', 'encoding', 'line_endings', 'format', 'version',
         'type', 'mimetype'}
UNKNOWN_KEYS = ['x', 'Length', 'LENGTH', 'line-endings', 'Line_Endings',
                'ENCODING', 'Encoding', 'Indent', 'lengthx', 'xlength',
                'len', 'Format', 'Version', 'Type', 'MimeType', 'mime-type',
                'x-vendor_opt9', 'a', 'Z', 'a-', 'a_', 'encodings',
                'line_ending', 'indent2', 'k' * 200,
                # names of reader internals / record fields / python
                # parameters: still just unknown options
                'keep_bytes', 'preserve_trailing_newline', 'self', 'fp',
                'newline', 'data', 'content', 'section', 'level', 'line',
                'options', 'text', 'metadata', 'diff', 'linenum', 'chunk_size',
                'valid_sections', 'c', 'cls', 'kwargs']
VALUES = ['v', '0', '7', '-3', '123456789012345678901234567890', 'text/x',
          'a.b_c-d/e', '1.0', 'utf-8', 'dos', 'json', 'True', 'v' * 2000,
          '-', '.', '/', '_', '00', '1e3', '0x1']


def extend_header(header, extras, position):
    m = re.match(br'^(#\.{0,3}[a-z]+:)(?: (.*?))?(\r?\n)$', header, re.S)
    pairs = m.group(2).split(b', ') if m.group(2) else []
    position = min(position, len(pairs))
    new = [('%s=%s' % (k, v)).encode('ascii') for k, v in extras]
    pairs[position:position] = new
    return m.group(1) + b' ' + b', '.join(pairs) + m.group(3), len(pairs)


def conv(v):
    b = v.encode('ascii')
    return int(v) if hg.is_decimal(b) else v


ELSEWHERE = {'preamble': ['type', 'format', 'version'],
             'meta': ['type', 'mimetype', 'version', 'indent'],
             'diff': ['mimetype', 'format', 'version', 'indent'],
             'container': ['mimetype', 'type', 'format', 'indent',
                           'line_endings']}


def check_extension(data, layout, base_recs, plan, obs):
    """plan: {section_index: (extras, position)}"""
    out = []
    pos = 0
    for i, s in enumerate(layout):
        out.append(data[pos:s['hoff']])
        h = data[s['hoff']:s['hoff'] + s['hlen']]
        if i in plan:
            extras, position = plan[i]
            h, _ = extend_header(h, extras, position)
        out.append(h)
        pos = s['hoff'] + s['hlen']
    out.append(data[pos:])
    ext = b''.join(out)
    case = {'file': data,
            'plan': [[i, [list(e) for e in ex], p]
                     for i, (ex, p) in sorted(plan.items())]}
    got, exc, _ = common.read_records(ext)
    nontrivial = any(layout[i]['options'] for i in plan)
    obs.case(ext, nontrivial=nontrivial)
    obs.count('extensions_checked')
    for i in plan:
        obs.count('extended:%s' % ('container' if 'coff' not in layout[i]
                                   else 'content'))
    if exc is not None:
        obs.violation('unknown_option_rejected:%s' %
                      common.exc_mechanism(exc), case, repr(exc)[:300])
        return
    want = []
    for i, r in enumerate(base_recs):
        r2 = dict(r)
        r2['options'] = dict(r['options'])
        if i in plan:
            for k, v in plan[i][0]:
                r2['options'][k] = conv(v)
        want.append(r2)
    d = common.diff_records(want, got)
    if d is not None:
        obs.violation('unknown_option_changed_output:%s' % d[0], case, d[1])


def dom_attribute_keys():
    """Names of public attributes / methods of the object-model classes that
    are also grammatical option keys: as header options they are just
    unknown options."""
    import re
    from pydiffx.dom import DiffX
    from pydiffx.dom import objects
    names = set()
    for cls in (DiffX, objects.DiffXChangeSection, objects.DiffXFileSection):
        names.update(n for n in dir(cls) if not n.startswith('_') and
                     re.match(r'^[A-Za-z][A-Za-z0-9_-]*$', n))
    return sorted(names - {'encoding', 'version', 'length', 'indent',
                           'line_endings', 'mimetype', 'format', 'type'})


def run(ctx):
    obs = ctx.obs
    rng = ctx.rng
    dom_keys = dom_attribute_keys()
    for k in range(ctx.share(ctx.pick(600, 12000))):
        doc, st, data, layout, tag = gen_foreign(rng)
        if len(data) > 8000:
            continue
        base, exc, _ = common.read_records(data)
        if exc is not None:
            continue
        conts = [i for i, sct in enumerate(layout) if 'coff' not in sct]
        hi = rng.choice(conts)
        key = rng.choice(dom_keys)
        val = rng.choice(['text/markdown', '4', 'latin1', 'json', 'x', '0',
                          'utf-16', 'dos'])
        obs.count('dom_attribute_name_options')
        check_extension(data, layout, base,
                        {hi: ([(key, val)], rng.randint(0, 3))}, obs)
    n = ctx.share(ctx.pick(8000, 150000))
    for k in range(n):
        doc, st, data, layout, tag = gen_foreign(rng)
        if len(data) > 8000:
            continue
        base, exc, _ = common.read_records(data)
        if exc is not None:
            obs.count('base_rejected(skipped)')
            continue
        obs.count('base_files')
        # every header, every insertion position, one extra
        hi = rng.randrange(len(layout))
        npairs = len(layout[hi]['options'])
        for position in range(npairs + 1):
            key = rng.choice(UNKNOWN_KEYS)
            if key in layout[hi]['options']:
                continue
            check_extension(data, layout, base,
                            {hi: ([(key, rng.choice(VALUES))], position)},
                            obs)
        # options that exist for OTHER section kinds are unknown here
        hi = rng.randrange(len(layout))
        kind = layout[hi].get('kind', 'container')
        if layout[hi]['id'] == 'diffx':
            cands = ['mimetype', 'type', 'format']
        else:
            cands = ELSEWHERE.get(kind, [])
        cands = [c for c in cands if c not in layout[hi]['options']]
        if cands:
            key = rng.choice(cands)
            val = {'type': 'text', 'format': 'json', 'version': '1.0',
                   'mimetype': 'text/plain', 'indent': '4', 'length': '3',
                   'line_endings': 'unix'}[key]
            check_extension(data, layout, base,
                            {hi: ([(key, val)], rng.randint(0, 5))}, obs)
        # several headers at once, 1-3 extras each
        plan = {}
        for i in rng.sample(range(len(layout)),
                            rng.randint(1, min(4, len(layout)))):
            keys = rng.sample(UNKNOWN_KEYS, rng.randint(1, 3))
            plan[i] = ([(kk, rng.choice(VALUES)) for kk in keys],
                       rng.randint(0, 6))
        check_extension(data, layout, base, plan, obs)
        # pad one header so that its total length straddles read-ahead block
        # boundaries (95..98, 191..194, 287..290 bytes before the newline)
        hi = rng.randrange(len(layout))
        hlen = layout[hi]['hlen']
        eol = 2 if data[layout[hi]['hoff']:layout[hi]['hoff'] + hlen] \
            .endswith(b'\r\n') else 1
        for target in (95, 96, 97, 98, 191, 192, 193, 287, 288, 289):
            need = target - (hlen - eol) - len(', q=')
            if layout[hi]['options'] == {}:
                need = target - (hlen - eol) - len(' q=')
            if need >= 1:
                check_extension(data, layout, base,
                                {hi: ([('q', 'w' * need)],
                                      rng.randint(0, 5))}, obs)
        # all headers, same key (a shared options dict would show up here)
        check_extension(data, layout, base,
                        {i: ([('x-all', str(i))], 0)
                         for i in range(len(layout))}, obs)
        if k == 0 and ctx.index == 0:
            obs.sample({'base_header': data[:80],
                        'plan': {str(i): p for i, p in plan.items()}})


def replay(case, obs):
    from mon.oracle import scanner
    data = case['file']
    secs, _ = scanner.scan(data)
    layout = []
    for s in secs:
        e = {'hoff': s['hoff'],
             'hlen': data.index(b'\n', s['hoff']) + 1 - s['hoff'],
             'options': s['options']}
        if 'coff' in s:
            e['coff'] = s['coff']
        layout.append(e)
    base, exc, _ = common.read_records(data)
    plan = {i: ([tuple(e) for e in ex], p) for i, ex, p in case['plan']}
    check_extension(data, layout, base, plan, obs)
