"""C04 - encoding inheritance follows nesting."""
import itertools

from mon.gen import recipe
from mon.monitor.streams import MonitoredStream
from mon.oracle.serializer import serialize, expected_records
from mon.props import common

LEVEL = 'exploration'
RULE = ('container histories (strings over {change,file}, every change '
        'followed by >=1 file) enumerated exhaustively up to a bounded '
        'length x every declare/omit mask over the containers x three '
        'content-section masks (all inherit / all own / alternating), then '
        'random histories of up to 40 containers with independent masks; '
        'encodings come from a pool that is pairwise distinguishing on the '
        'generated content (UTF-16 with BOM, UTF-16-BE, UTF-32-BE, UTF-32-LE, '
        'EBCDIC cp037, UTF-8; plus latin-1 / shift_jis with non-ASCII text), '
        'so a wrong scope changes bytes (writer) or text / decodability '
        '(reader). The effective encoding is read off the recipe tree. '
        'Writer and reader are each judged alone against the spec serializer '
        'and then against each other. Non-trivial = >= 2 containers declare '
        'different encodings; distinct = recipe fingerprint.')
RULE += (
         ' Also: exotic argument objects (str-subclass encodings) must give '
         'identical bytes; 2-4 readers over documents with different '
         'encodings at work at once (seeded scheduler, interleaved '
         'generators) must each yield what they yield alone. Process axes '
         '(DESIGN 2.8): 2 of 16 shards run under python -O, 4 of 16 after a '
         'hostile warm-up of the library.')
FLOOR = {'quick': 1500, 'thorough': 30000}
REQUIRED_REACH = ['reader.py:', 'writer.py:']
REQUIRED_COUNTERS = ['reader_sections_checked', 'writer_bytes_checked',
                     'dom_writer_bytes_checked',
                     'rejected_container_calls_injected',
                     'transition:file->change']
ASSUMPTIONS = [
    'effective encoding = own option, else nearest declaring ancestor '
    '(spec encodings.rst); diffs never inherit',
    'reader generator locals (encoding stack) are read for diagnostics only',
]

POOL = ['utf-16', 'utf-16-be', 'utf-32-be', 'utf-32-le', 'cp037', 'utf-8']
EXTRA = ['latin-1', 'shift_jis']


def histories(maxlen):
    """All strings over C/F of length 1..maxlen starting with C where every
    C is followed by at least one F."""
    out = []
    for n in range(2, maxlen + 1):
        for s in itertools.product('CF', repeat=n):
            s = ''.join(s)
            if s[0] != 'C' or 'CCC' in s:
                continue
            # 'CC' / trailing 'C' = a change without files (it then carries
            # metadata): "..meta -> .change" is a don't-care of the
            # hierarchy, but where reader / writer accept it the encoding
            # scopes must still be right
            out.append(s)
    return out


def text_for(codec, tag):
    if codec == 'shift_jis':
        return 'テキ[%s]!\n' % tag
    if codec in ('utf-8', 'latin-1', 'cp037') or codec.startswith('utf'):
        return 'é[%s]!|\n' % tag
    return '[%s]!\n' % tag


def build(history, cont_mask, content_mode, rng=None, main_declares=True,
          pool=POOL, with_main_content=True):
    """history: 'CFFCF'; cont_mask: iterable of bools per container (does it
    declare an encoding?); content_mode: 'inherit' | 'own' | 'alt' | 'rand'.
    Declaring nodes take successive pool entries so neighbours differ."""
    k = [0]

    def nxt():
        if rng is not None and content_mode == 'rand':
            return rng.choice(pool)
        k[0] += 1
        return pool[k[0] % len(pool)]

    cidx = [0]

    def content_declares():
        cidx[0] += 1
        if content_mode == 'inherit':
            return False
        if content_mode == 'own':
            return True
        if content_mode == 'alt':
            return cidx[0] % 2 == 0
        if content_mode == 'main':
            return True
        return rng.random() < 0.4

    def own_enc():
        # 'main' mode: content sections re-declare the MAIN encoding under
        # containers that declare something else (nearest-ancestor-wins)
        if content_mode == 'main':
            return pool[0]
        return nxt()

    def mk_pre(inh, tag):
        own = own_enc() if content_declares() else None
        eff = own or inh
        if eff is None:
            return None
        return {'text': text_for(eff, tag), 'encoding': own, 'indent': 4,
                'line_endings': 'unix', 'mimetype': None, 'explicit': True}

    def mk_meta(inh, tag):
        own = own_enc() if content_declares() else None
        if (own or inh) is None:
            return None
        return {'obj': {'k': ['v!|', tag]}, 'encoding': own}

    main = pool[0] if main_declares else None
    doc = {'encoding': main, 'changes': []}
    if with_main_content:
        p = mk_pre(main, 'mp')
        if p:
            doc['preamble'] = p
        m = mk_meta(main, 'mm')
        if m:
            doc['meta'] = m
    masks = list(cont_mask)
    cur = None
    for i, c in enumerate(history):
        declares = masks[i] if i < len(masks) else False
        own = nxt() if declares else None
        if c == 'C':
            cur = {'encoding': own, 'files': []}
            cenc = own or main
            cur['_eff'] = cenc
            p = mk_pre(cenc, 'c%dp' % i)
            if p:
                cur['preamble'] = p
            m = mk_meta(cenc, 'c%dm' % i)
            fileless = i + 1 >= len(history) or history[i + 1] == 'C'
            if m is None and fileless:
                m = {'obj': {'k': ['v!|', 'c%dm' % i]}, 'encoding': nxt()}
            if m:
                cur['meta'] = m
            doc['changes'].append(cur)
        else:
            fenc = own or cur['_eff']
            f = {'encoding': own}
            m = mk_meta(fenc, 'f%d' % i)
            if m is None:
                # a file needs metadata; give it its own encoding
                m = {'obj': {'k': ['v!|', 'f%d' % i]}, 'encoding': nxt()}
            f['meta'] = m
            if i % 2 == 0:
                # diffs never inherit: raw bytes that are not valid in most
                # pool codecs must come back untouched (and be analysed as
                # they are: one deletion, one insertion)
                f['diff'] = {'data': b'--- a\n+++ b\n@@ -1 +1 @@\n-a\n'
                                     b'+\xe9\xff\x00d%d\n' % i,
                             'encoding': None, 'line_endings': 'unix',
                             'type': None}
            cur['files'].append(f)
    for ch in doc['changes']:
        ch.pop('_eff', None)
    return doc


def has_fileless_change(doc):
    return any(not ch.get('files') for ch in doc['changes'])


def check_case(doc, obs, tag='enum'):
    if has_fileless_change(doc):
        return check_fileless(doc, obs)
    want, layout = serialize(doc)
    expected = expected_records(layout)
    declared = set(s['options'].get('encoding') for s in layout
                   if s['kind'] == 'container') - {None}
    obs.case(doc, nontrivial=len(declared) >= 2)
    obs.count('case:%s' % tag)
    ids = [s['id'] for s in layout if s['kind'] == 'container']
    names = {'diffx': 'main', '.change': 'change', '..file': 'file'}
    for a, b in zip(ids, ids[1:]):
        obs.count('transition:%s->%s' % (names[a], names[b]))

    # (a) writer alone (needs a main encoding or all-explicit sections)
    writer_ok = doc.get('encoding') is not None
    data = None
    if writer_ok:
        stream = MonitoredStream()
        try:
            recipe.run_writer(recipe.writer_calls(doc), stream)
            data = stream.getvalue()
        except Exception as e:
            obs.violation('writer_scope:raised:%s' % common.exc_mechanism(e),
                          doc, repr(e))
        if data is not None:
            obs.count('writer_bytes_checked', len(data))
            from mon.props.c02 import check_exotic_arguments
            check_exotic_arguments(doc, recipe.writer_calls(doc), data, obs)
            if not common.bytes_equivalent(data, want, layout)[0]:
                i = next((j for j in range(min(len(data), len(want)))
                          if data[j] != want[j]), min(len(data), len(want)))
                sec = [s for s in layout if s['hoff'] <= i][-1]
                obs.violation('writer_scope:bytes_differ_in:%s' % sec['kind'],
                              doc, {'section': sec['id'], 'offset': i,
                                    'effective_encoding': sec.get('codec'),
                                    'got': data[i - 5:i + 40],
                                    'want': want[i - 5:i + 40]})

    # (b) reader alone on the oracle's bytes, with the frame probe
    _check_reader(want, expected, layout, doc, obs, 'reader_scope')

    # (c) writer -> reader agreement
    if data is not None and data != want:
        _check_reader(data, expected, layout, doc, obs, 'writer_reader',
                      want)


def _check_reader(data, expected, layout, doc, obs, label, want=None):
    from pydiffx.reader import DiffXReader
    stream = MonitoredStream(data)
    gen = DiffXReader(stream).iter_sections()
    got = []
    probes = []
    exc = None
    try:
        for r in gen:
            got.append(common.project(r))
            probes.append(common.encstack_probe(gen))
    except Exception as e:
        exc = e
    obs.count('reader_sections_checked', len(got))
    # diagnostic probe: top of stack after a container == effective encoding
    probe_note = None
    for s, p in zip(layout, probes):
        if not p:
            obs.count('probe_not_attached')
            break
        if s['kind'] == 'container':
            obs.count('probe_checked')
            eff = _container_eff(layout, s)
            if p[-1] != eff or len(p) != s['level'] + 2:
                obs.count('probe_mismatch(diagnostic)')
                if probe_note is None:
                    probe_note = {'after': s['id'], 'line': s['line'],
                                  'stack': p, 'oracle_effective': eff}
    if exc is not None:
        at = expected[len(got)] if len(got) < len(expected) else None
        obs.violation('%s:reader_raised_in:%s:%s' % (
            label, at['section'] if at else 'end',
            type(exc).__name__), doc,
            {'error': repr(exc), 'records_before': len(got),
             'encoding_stack_probe': probe_note})
        return
    d = common.diff_records(expected, got) if want is None else \
        common.diff_records_tolerant(expected, got, data, want, layout)
    if d is not None:
        obs.violation('%s:%s' % (label, d[0]), doc,
                      dict(d[1], encoding_stack_probe=probe_note))
        return
    # the same reader object over the rewound stream (diagnostic only: no
    # property defines a second iteration of one reader object)
    if len(data) < 4000 and (hash(data) % 4 == 0 or
                             doc.get('encoding') is None):
        import io
        fp = io.BytesIO(data)
        rd = DiffXReader(fp)
        try:
            for _ in rd:
                pass
            fp.seek(0)
            again = [common.project(r) for r in rd]
            obs.count('reiterations_compared')
            if common.diff_records(expected, again,
                                   ignore=('line', 'length')):
                obs.count('second_iteration_differs(diagnostic)')
        except Exception:
            obs.count('second_iteration_differs(diagnostic)')


def _container_eff(layout, sec):
    """Effective encoding of a container from the layout (tree walk)."""
    eff = {}
    for s in layout:
        if s['kind'] != 'container':
            continue
        lv = s['level']
        own = s['options'].get('encoding')
        eff[lv] = own or (eff.get(lv - 1) if lv > 0 else None)
        for k in list(eff):
            if k > lv:
                del eff[k]
        if s is sec:
            return eff[lv]
    return None


def run(ctx):
    obs = ctx.obs
    rng = ctx.rng
    hs = histories(ctx.pick(5, 7))
    i = 0
    for h in hs:
        for mask in itertools.product((False, True), repeat=len(h)):
            for mode in ('inherit', 'own', 'alt', 'main'):
                i += 1
                if not ctx.mine(i):
                    continue
                doc = build(h, mask, mode)
                check_case(doc, obs)
                if i % 3 == 0:
                    check_dom_writer(doc, obs)
                if i % 5 == 0:
                    check_with_rejected_calls(doc, obs, rng)
    # no encoding on the main header: main-level content stays bytes,
    # whatever later containers declare (also on a second pass of one reader)
    if ctx.index == 0:
        for cenc, fenc in (('utf-16', None), (None, 'utf-32-be'),
                           ('cp037', 'utf-16-be'), ('latin-1', 'utf-16')):
            doc = {'encoding': None,
                   'preamble': {'text': 'ascii only\nmain\n', 'encoding': None,
                                'indent': 2, 'line_endings': 'unix',
                                'mimetype': None, 'explicit': True},
                   'meta': {'obj': {'k': 'v'}, 'encoding': None},
                   'changes': [{'encoding': cenc,
                                'meta': {'obj': {'c': 1},
                                         'encoding': None if cenc else 'utf-8'},
                                'files': [{'encoding': fenc,
                                           'meta': {'obj': {'f': 1},
                                                    'encoding': None if (
                                                        fenc or cenc)
                                                    else 'utf-8'}}]}]}
            check_case(doc, obs, 'main_without_encoding')
    obs.exhaustive = None
    obs.count('histories_enumerated', len(hs) if ctx.index == 0 else 0)
    n = ctx.share(ctx.pick(3000, 200000))
    for k in range(n):
        ln = rng.randint(2, ctx.pick(14, 40))
        h = 'C'
        while len(h) < ln:
            h += rng.choice('FFFFFFC') if h[-1] == 'C' and \
                not h.endswith('CC') else ('F' if h[-1] == 'C'
                                           else rng.choice('FFC'))
        if h.endswith('C'):
            h += 'F'
        mask = [rng.random() < 0.45 for _ in h]
        pool = POOL + (EXTRA if rng.random() < 0.5 else [])
        doc = build(h, mask, 'rand', rng, main_declares=rng.random() < 0.85,
                    pool=pool, with_main_content=rng.random() < 0.7)
        check_case(doc, obs, 'random')
        if k % 4 == 0:
            check_dom_writer(doc, obs)
        if k % 4 == 1 and doc.get('encoding'):
            check_with_rejected_calls(doc, obs, rng)
        if k < 2 and ctx.index == 0:
            obs.sample({'history': h, 'recipe': doc})
    # general recipes with hostile texts as well
    for k in range(ctx.share(ctx.pick(2000, 100000))):
        check_case(recipe.gen_doc(rng, max_changes=4, max_files=3,
                                  enc_p=0.45), obs, 'general')
    for k in range(ctx.share(ctx.pick(400, 8000))):
        check_stats_ignore_containers(obs, rng)
        check_diff_never_inherits(obs, rng)
    for k in range(ctx.share(ctx.pick(3000, 80000))):
        m = mismatch_file(rng)
        if m is not None:
            check_payload_mismatch(*m, obs)
    # several readers alive at once: the encoding scopes of one document
    # must not reach another

    def gen_data(r):
        return serialize(recipe.gen_doc(r, max_changes=3, max_files=3,
                                        enc_p=0.5))[0]
    common.reader_concurrency_pass(ctx, gen_data,
                                   ctx.share(ctx.pick(120, 3000)))


def check_stats_ignore_containers(obs, rng):
    """Statistics read a diff through its OWN encoding option only: the
    same diff bytes and diff options under different main / change / file
    encodings must give the same file statistics (metamorphic)."""
    from pydiffx.dom import DiffX
    hunk = '--- a\n+++ b\n@@ -1,2 +1,3 @@\n c\n-old\n+new\n+more\n'
    payload_codec = rng.choice(['utf-16', 'utf-32', 'utf-16-le', 'cp037',
                                'utf-8'])
    payload = hunk.encode(payload_codec)
    declared = rng.choice([None, 'utf-8', 'ascii', 'x-no-such-codec',
                           payload_codec, 'latin-1'])
    results = []
    scopes = [('utf-8', None, None), ('utf-8', None, payload_codec),
              ('utf-8', payload_codec, None), (payload_codec, None, None),
              ('latin-1', 'utf-16', 'utf-32')]
    for main, cenc, fenc in scopes:
        try:
            t = DiffX(encoding=main)
            c = t.add_change(**({'encoding': cenc} if cenc else {}))
            kw = {'meta': {'path': 'x'}, 'diff': payload}
            if fenc:
                kw['encoding'] = fenc
            if declared:
                kw['diff_encoding'] = declared
            f = c.add_file(**kw)
            t.generate_stats()
            results.append(f.meta.get('stats'))
        except Exception as e:
            results.append('raised:%s' % type(e).__name__)
    obs.count('stats_container_independence_checked')
    obs.case(('stats_scope', payload_codec, declared), nontrivial=True)
    if any(not common.strict_equal(r, results[0]) for r in results[1:]):
        obs.violation('dom_stats_scope:statistics_depend_on_container_'
                      'encoding', {'stats_scope': [payload_codec, declared]},
                      {'scopes': scopes, 'stats': results})


WIDE = ['utf-16', 'utf-32', 'utf-16-be', 'utf-32-le', 'cp037', 'cp500',
        'utf-16-le']


def check_diff_never_inherits(obs, rng):
    """A diff section that declares neither encoding nor line_endings (legal;
    other producers write them) under containers whose encodings are not
    ASCII compatible: its bytes are framed, split and returned as they are -
    nothing of the scope may be used to find or check its newline."""
    main = rng.choice(WIDE + ['utf-8'])
    cenc = rng.choice([None] + WIDE)
    fenc = rng.choice([None] + WIDE)
    eff = fenc or cenc or main
    nl = rng.choice([b'\n', b'\r\n'])
    diff = nl.join([b'--- a', b'+++ b', b'@@ -1 +1 @@', b'-a', b'+b', b''])
    if rng.random() < 0.3:
        diff = diff[:-len(nl)] + b'x' + nl
    meta = '{}\n'.encode(eff)[len(''.encode(eff)):]
    eff2 = cenc or main          # the second file declares nothing
    meta2 = '{}\n'.encode(eff2)[len(''.encode(eff2)):]
    data = (b'#diffx: encoding=%s, version=1.0\n' % main.encode() +
            b'#.change:' + (b' encoding=%s' % cenc.encode() if cenc else b'')
            + b'\n#..file:' + (b' encoding=%s' % fenc.encode() if fenc
                               else b'') + b'\n' +
            b'#...meta: format=json, length=%d\n' % len(meta) + meta +
            b'#...diff: length=%d\n' % len(diff) + diff +
            b'#..file:\n#...meta: format=json, length=%d\n' % len(meta2) +
            meta2)
    case = {'diff_scope_file': data}
    obs.case(data, nontrivial=True)
    obs.count('bare_diffs_under_wide_scopes')
    recs, exc, _ = common.read_records(data)
    if exc is not None:
        obs.violation('reader_scope:bare_diff_read_through_container_'
                      'encoding:%s' % common.exc_mechanism(exc), case,
                      repr(exc)[:200])
        return
    got = recs[4] if len(recs) == 7 else None
    if got is None or got.get('diff') != diff or \
            got.get('options') != {'length': len(diff)}:
        obs.violation('reader_scope:bare_diff_altered', case,
                      {'records': len(recs),
                       'got': repr(got)[:300] if got else None})


# --------------------------------------------------- payload / codec mismatch
MIS_POOL = ['ascii', 'latin-1', 'cp1252', 'utf-8', 'utf-16', 'utf-16-le',
            'cp037', 'shift_jis', 'utf-32-be']


def mismatch_file(rng):
    """A file in which ONE metadata section's bytes were produced with a
    codec other than its effective (own or nearest declared) encoding.
    Returns (data, index of that record, effective codec, payload)."""
    import json
    main = rng.choice(MIS_POOL)
    cenc = rng.choice([None, None] + MIS_POOL)
    fenc = rng.choice([None, None] + MIS_POOL)
    own = rng.choice([None, None, None] + MIS_POOL)
    level = rng.choice(['main', 'change', 'file'])
    inherited = {'main': main, 'change': cenc or main,
                 'file': fenc or cenc or main}[level]
    eff = own or inherited
    text = json.dumps({'k': rng.choice(['\u00e9', '\u00e9\u65e5',
                                        'caf\u00e9 \u00fc', 'plain'])},
                      indent=4, ensure_ascii=False) + '\n'
    others = [c for c in MIS_POOL if c != eff]
    rng.shuffle(others)
    payload = None
    for pc in others:
        try:
            payload = text.encode(pc)
        except UnicodeEncodeError:
            continue
        if ''.encode(pc):
            payload = payload[len(''.encode(pc)):]
        try:
            same = payload == text.encode(eff)[len(''.encode(eff)):]
        except UnicodeEncodeError:
            same = False
        if not same:
            break
        payload = None
    if payload is None:
        return None

    def meta(lvl, dots):
        if lvl == level:
            opts = ('encoding=%s, ' % own if own else '') + 'format=json, '
            return (b'#' + dots + b'meta: ' + opts.encode() +
                    b'length=%d\n' % len(payload) + payload)
        # a plain ASCII-only section valid in every pool codec that is
        # ASCII compatible; declared utf-8 to be independent of the rest
        return b'#' + dots + b'meta: encoding=utf-8, length=9\n{"a": 1}\n'
    out = [b'#diffx: encoding=%s, version=1.0\n' % main.encode()]
    recs = 1
    idx = None
    if level == 'main' or rng.random() < 0.5:
        if level == 'main':
            idx = recs
        out.append(meta('main', b'.'))
        recs += 1
    out.append(b'#.change:' + (b' encoding=%s' % cenc.encode()
                               if cenc else b'') + b'\n')
    recs += 1
    if level == 'change' or rng.random() < 0.5:
        if level == 'change':
            idx = recs
        out.append(meta('change', b'..'))
        recs += 1
    out.append(b'#..file:' + (b' encoding=%s' % fenc.encode()
                              if fenc else b'') + b'\n')
    recs += 1
    if level == 'file':
        idx = recs
    out.append(meta('file', b'...'))
    return b''.join(out), idx, eff, payload


def check_payload_mismatch(data, idx, eff, payload, obs):
    """The effective encoding - and nothing else - decides how the bytes are
    read: the reader yields exactly what decoding with it denotes, or
    rejects the section when that is not a JSON object ending in a newline;
    it never falls back to another codec."""
    import json
    case = {'mismatch_file': data, 'index': idx, 'effective': eff,
            'payload': payload}
    obs.case(data, nontrivial=True)
    obs.count('payload_mismatch_files')
    try:
        text = payload.decode(eff)
        want = json.loads(text)
        if not isinstance(want, dict) or not text.endswith('\n'):
            want = None
    except (UnicodeDecodeError, ValueError):
        want = None
    recs, exc, _ = common.read_records(data)
    if want is None:
        obs.count('payload_mismatch:must_reject')
        if exc is None or len(recs) > idx:
            obs.violation('payload_in_other_codec_accepted', case,
                          {'yielded': recs[idx].get('metadata')
                           if len(recs) > idx else None})
        elif not common.is_parse_error(exc):
            obs.violation('payload_in_other_codec_raised:%s'
                          % common.exc_mechanism(exc), case, repr(exc)[:200])
        return
    obs.count('payload_mismatch:denotes_a_value_in_effective_codec')
    if exc is not None and len(recs) <= idx:
        if common.is_parse_error(exc):
            # stricter than required (e.g. refusing C1 controls): fine
            obs.count('tolerance:mojibake_payload_rejected')
        else:
            obs.violation('payload_in_other_codec_raised:%s'
                          % common.exc_mechanism(exc), case, repr(exc)[:200])
        return
    got = recs[idx].get('metadata')
    if not common.strict_equal(got, want):
        obs.violation('metadata_not_decoded_with_effective_encoding', case,
                      {'got': got, 'want': want})


def replay(case, obs):
    if 'diff_scope_file' in case:
        recs, exc, _ = common.read_records(case['diff_scope_file'])
        if exc is not None:
            obs.violation('reader_scope:bare_diff_read_through_container_'
                          'encoding:%s' % common.exc_mechanism(exc), case,
                          repr(exc)[:200])
        return
    if 'stats_scope' in case:
        import random
        for k in range(200):
            check_stats_ignore_containers(obs, random.Random(k))
        return
    if 'mismatch_file' in case:
        return check_payload_mismatch(case['mismatch_file'], case['index'],
                                      case['effective'], case['payload'], obs)
    if 'concurrent' in case or 'interleaved' in case:
        return common.replay_reader_concurrency(case, obs)
    check_case(case, obs, 'replay')


# ---------------------------------------------------------------- extensions
REJECTED = [('new_change', {'encoding': 'utf\u20138'}),
            ('new_file', {'encoding': 'utf\u201316'}),
            ('new_change', {'encoding': 'é'})]


def check_with_rejected_calls(doc, obs, rng):
    """A container call that is rejected (its encoding cannot be written to
    the ASCII header) must not influence the encoding of anything written
    afterwards: the bytes must equal the oracle's for the plain document."""
    from pydiffx.writer import DiffXWriter
    want, layout = serialize(doc)
    calls = recipe.writer_calls(doc)
    stream = MonitoredStream()
    w = DiffXWriter(stream, **calls[0][2])
    n_rej = 0
    try:
        for name, a, kw in calls[1:]:
            if rng.random() < 0.4:
                rname, rkw = rng.choice(REJECTED)
                try:
                    getattr(w, rname)(**rkw)
                    obs.count('hostile_container_call_accepted')
                    return
                except Exception:
                    n_rej += 1
            getattr(w, name)(*a, **kw)
    except Exception as e:
        if has_fileless_change(doc) and \
                type(e).__name__ == 'DiffXSectionOrderError':
            obs.count('tolerance:writer_rejects_fileless_change')
            return
        obs.violation('writer_scope:rejected_container_call_changes_later_'
                      'behaviour:%s' % type(e).__name__, doc, repr(e)[:200])
        return
    obs.count('rejected_container_calls_injected', n_rej)
    obs.case(('rej', repr(doc)), nontrivial=n_rej > 0)
    if not common.bytes_equivalent(stream.getvalue(), want, layout)[0]:
        obs.violation('writer_scope:rejected_container_call_changes_later_'
                      'bytes', doc)


def recipe_to_tree(doc):
    """Build an object-model tree for a recipe through the public API."""
    from pydiffx.dom import DiffX
    import copy

    def pre_kw(pre):
        kw = {'preamble': pre['text'], 'preamble_indent': pre['indent'],
              'preamble_line_endings': pre['line_endings']}
        if pre.get('encoding'):
            kw['preamble_encoding'] = pre['encoding']
        return kw

    def meta_kw(meta):
        kw = {'meta': copy.deepcopy(meta['obj'])}
        if meta.get('encoding'):
            kw['meta_encoding'] = meta['encoding']
        return kw
    kw = {'encoding': doc['encoding']}
    if doc.get('preamble'):
        kw.update(pre_kw(doc['preamble']))
    if doc.get('meta'):
        kw.update(meta_kw(doc['meta']))
    d = DiffX(**kw)
    for ch in doc['changes']:
        kw = {}
        if ch.get('encoding'):
            kw['encoding'] = ch['encoding']
        if ch.get('preamble'):
            kw.update(pre_kw(ch['preamble']))
        if ch.get('meta'):
            kw.update(meta_kw(ch['meta']))
        c = d.add_change(**kw)
        for f in ch['files']:
            kw = meta_kw(f['meta'])
            if f.get('encoding'):
                kw['encoding'] = f['encoding']
            if f.get('diff'):
                kw['diff'] = f['diff']['data']
                kw['diff_line_endings'] = f['diff']['line_endings']
            c.add_file(**kw)
    return d


def check_dom_writer(doc, obs):
    """The object-model writer sits on top of the streaming writer: the same
    nesting must give the same bytes."""
    if doc.get('encoding') is None:
        return
    want, layout = serialize(doc)
    try:
        data = recipe_to_tree(doc).to_bytes()
    except Exception as e:
        if has_fileless_change(doc) and \
                type(e).__name__ == 'DiffXSectionOrderError':
            obs.count('tolerance:writer_rejects_fileless_change')
            return
        obs.violation('dom_writer_scope:raised:%s' % common.exc_mechanism(e),
                      doc, repr(e)[:200])
        return
    obs.count('dom_writer_bytes_checked', len(data))
    # statistics read the diff as it is, whatever the containers declare
    try:
        from pydiffx.dom import DiffX
        if has_fileless_change(doc):
            raise StopIteration
        t = DiffX.from_bytes(want)
        t.generate_stats()
        for c in t.changes:
            for fs in c.files:
                if fs.diff and fs.diff.startswith(b'--- a\n'):
                    st = fs.meta.get('stats', {})
                    obs.count('diff_stats_checked')
                    if (st.get('insertions'), st.get('deletions')) != (1, 1):
                        obs.violation(
                            'dom_stats_scope:diff_read_with_container_'
                            'encoding', doc, {'stats': st,
                                              'file_encoding': fs.encoding})
                        return
    except StopIteration:
        pass
    except Exception as e:
        obs.violation('dom_stats_scope:raised:%s' % common.exc_mechanism(e),
                      doc, repr(e)[:200])
        return
    if not common.bytes_equivalent(data, want, layout)[0]:
        i = next((j for j in range(min(len(data), len(want)))
                  if data[j] != want[j]), min(len(data), len(want)))
        sec = [s for s in layout if s['hoff'] <= i][-1]
        obs.violation('dom_writer_scope:bytes_differ_in:%s' % sec['kind'],
                      doc, {'section': sec['id'], 'offset': i,
                            'effective_encoding': sec.get('codec'),
                            'got': data[i - 5:i + 40],
                            'want': want[i - 5:i + 40]})


def check_fileless(doc, obs):
    """Documents with a change that has metadata but no files. Either side
    may reject the order (don't-care); what is accepted must be scoped
    right."""
    from pydiffx.errors import DiffXSectionOrderError, DiffXParseError
    want, layout = serialize(doc)
    expected = expected_records(layout)
    obs.case(doc, nontrivial=True)
    obs.count('case:fileless_change')
    stream = MonitoredStream()
    try:
        recipe.run_writer(recipe.writer_calls(doc), stream)
        if not common.bytes_equivalent(stream.getvalue(), want, layout)[0]:
            obs.violation('writer_scope:bytes_differ_in:fileless_change_doc',
                          doc)
    except DiffXSectionOrderError:
        obs.count('tolerance:writer_rejects_fileless_change')
    except Exception as e:
        obs.violation('writer_scope:raised:%s' % common.exc_mechanism(e),
                      doc, repr(e)[:200])
    got, exc, _ = common.read_records(want)
    if isinstance(exc, DiffXParseError) and 'section ID' in str(exc):
        obs.count('tolerance:reader_rejects_fileless_change')
        return
    obs.count('reader_sections_checked', len(got))
    if exc is not None:
        obs.violation('reader_scope:reader_raised_in:fileless_change_doc:%s'
                      % type(exc).__name__, doc, repr(exc)[:200])
        return
    d = common.diff_records(expected, got)
    if d is not None:
        obs.violation('reader_scope:%s' % d[0], doc, d[1])
