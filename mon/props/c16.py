"""C16 - split_lines algebra (lossless, consistent between modes)."""
import itertools

from mon.monitor import contracts
from mon.oracle import splitter

LEVEL = 'exploration'
RULE = ('every byte string over the alphabet {CR, LF, NUL, space, "a"} of '
        'length 1..L (L in counters) x the 10 newline sequences pydiffx '
        'uses (LF, CRLF and their UTF-16/32 LE/BE encodings) x both modes is '
        'fed to the real split_lines and the four identities are evaluated '
        'by the same condition functions that are attached to the function '
        'as an icontract post-condition (and therefore also run on every '
        'call the reader / writer / object model make in all other checks); '
        'plus random strings up to 4 kB. Every enumerated (string, newline) '
        'pair is distinct by construction (disjoint shards of one '
        'enumeration); non-trivial = the string contains at least one byte '
        'of the newline.')
RULE += (
         ' Also: buffers of 4 MiB (thorough: 9 and 17 MiB) in which a '
         'newline straddles every power of two and every multiple of 1 MiB '
         'and 10^6. Process axes (DESIGN 2.8): 2 of 16 shards run under '
         'python -O, 4 of 16 after a hostile warm-up of the library.')
FLOOR = {'quick': 100000, 'thorough': 1000000}
REQUIRED_REACH = ['split_lines']
REQUIRED_COUNTERS = ['cold_pass_pairs', 'large_buffers_checked']
ASSUMPTIONS = ['newline sequences are those of NEWLINE_FORMATS in the 5 '
               'fixed-width encodings; they have no self-overlap']

ALPHABET = [b'\r', b'\n', b'\x00', b' ', b'a']
NEWLINES = [nl.encode(c) for c in ('ascii', 'utf-16-le', 'utf-16-be',
                                    'utf-32-le', 'utf-32-be')
            for nl in ('\n', '\r\n')]


def check(split_lines, data, nl, obs, case=None):
    try:
        kept = split_lines(data, nl, keep_ends=True)
        plain = split_lines(data, nl)
        plain2 = split_lines(data, newline=nl, keep_ends=False)
    except Exception as e:
        obs.violation('split_lines_raised:%s' % type(e).__name__,
                      case or {'data': data, 'newline': nl}, repr(e))
        return
    fails = splitter.check_keep(data, nl, kept)
    fails += splitter.check_nokeep(data, nl, kept, plain)
    if plain2 != plain:
        fails.append('default_mode_differs')
    if kept != splitter.scan_split(data, nl):
        fails.append('differs_from_scanning_splitter')
    for f in fails:
        if case is not None:
            obs.violation('identity:%s' % f, case,
                          {'lines_returned': len(kept)})
            continue
        obs.violation('identity:%s' % f, {'data': data, 'newline': nl},
                      {'kept': kept, 'plain': plain})


def boundary_buffer(size, nl, seed):
    """A buffer of ``size`` bytes of ordinary lines in which a newline
    straddles every power of two, every multiple of 1 MiB and of 10**6 (one
    byte of it before the boundary, or more for multi-byte newlines)."""
    import random
    r = random.Random(seed)
    parts = []
    n = 0
    while n < size:
        ln = b'x' * r.randint(0, 120) + nl
        parts.append(ln)
        n += len(ln)
    buf = bytearray(b''.join(parts)[:size])
    bounds = set(1 << k for k in range(6, 31))
    bounds.update(range(1 << 20, size, 1 << 20))
    bounds.update(range(10 ** 6, size, 10 ** 6))
    for j, b in enumerate(sorted(x for x in bounds if 64 <= x < size - 64)):
        buf[b - 32:b + 32] = b'x' * 64
        back = 1 + j % max(1, len(nl) - 1) if len(nl) > 1 else 1
        buf[b - back:b - back + len(nl)] = nl
    return bytes(buf)


def check_boundary_buffers(ctx, split_lines):
    obs = ctx.obs
    M = 1 << 20
    sizes = [4 * M + 100001] if ctx.quick else [4 * M + 100001, 9 * M + 7,
                                                17 * M + 3]
    i = 0
    for size in sizes:
        for nl in NEWLINES:
            i += 1
            if not ctx.mine(i):
                continue
            if ctx.quick and nl not in (NEWLINES[1], NEWLINES[3],
                                        NEWLINES[0], NEWLINES[9]):
                continue
            seed = size * 31 + len(nl)
            data = boundary_buffer(size, nl, seed)
            obs.case((size, nl, 'boundary'), nontrivial=True)
            obs.count('multi_MiB_boundary_buffers_checked')
            check(split_lines, data, nl, obs,
                  case={'boundary_buffer': size, 'newline': nl,
                        'seed': seed})


def check_long_lines_and_counts(ctx, split_lines):
    """(a) one line long enough to span whole internal blocks, with its
    newline ending at / straddling / starting at every power of two and a few
    round sizes, alone and starting exactly at such a boundary; (b) buffers
    with exactly N newline occurrences for round N (powers of two, multiples
    of 1000 / 10000) and N +- 1, terminated and not."""
    obs = ctx.obs
    i = 0
    top = 20 if ctx.quick else 23
    quick_nls = (NEWLINES[0], NEWLINES[1], NEWLINES[3], NEWLINES[8])
    bounds = [1 << k for k in range(10, top + 1)] + [10 ** 5, 10 ** 6,
                                                     3 << 16, 30000, 65535]
    for nl in NEWLINES:
        if ctx.quick and nl not in quick_nls:
            continue
        for B in bounds:
            for j in range(0, len(nl) + 1):
                i += 1
                if not ctx.mine(i):
                    continue
                line = b'x' * (B - j) + nl
                for data, tag in ((line + b'second' + nl, 'first'),
                                  (b'p' * (B - len(nl)) + nl + line + b'z',
                                   'at_boundary'),
                                  (line + line + b'tail', 'twice')):
                    obs.case((B, j, nl, tag, 'longline'), nontrivial=True)
                    obs.count('long_line_boundary_cases')
                    check(split_lines, data, nl, obs,
                          case={'long_line': [B, j, tag], 'newline': nl})
    counts = sorted(set([1 << k for k in range(8, 18)] +
                        [1000 * m for m in (1, 5, 10, 20, 30, 40, 50, 60,
                                            90, 100, 120)] + [65535, 99999]))
    if ctx.quick:
        counts = [c for c in counts if c <= 65536]
    for nl in NEWLINES:
        if ctx.quick and nl not in quick_nls[:3]:
            continue
        for N in counts:
            for d in (-1, 0, 1):
                i += 1
                if not ctx.mine(i):
                    continue
                if ctx.quick and len(nl) > 2 and d:
                    continue
                for final in (True, False):
                    data = (b'a' + nl) * (N + d) + (b'' if final else b'end')
                    obs.case((N + d, nl, final, 'count'), nontrivial=True)
                    obs.count('round_line_count_cases')
                    check(split_lines, data, nl, obs,
                          case={'line_count': N + d, 'final': final,
                                'newline': nl})


def run(ctx):
    obs = ctx.obs
    rng = ctx.rng
    split_lines = contracts.original('split_lines')
    L = ctx.pick(8, 10)
    idx = 0
    n_cases = 0
    n_nontrivial = 0
    # split_lines must not depend on what else the library did before in
    # this process: a short "cold" pass first, then the sibling helpers are
    # exercised for every codec (as reader / writer do), then the full pass
    for length in range(1, 6):
        for tup in itertools.product(ALPHABET, repeat=length):
            idx += 1
            if not ctx.mine(idx):
                continue
            data = b''.join(tup)
            for nl in NEWLINES:
                check(split_lines, data, nl, obs)
                n_cases += 1
    obs.count('cold_pass_pairs', n_cases)
    import pydiffx.utils.text as text
    for codec in ('ascii', 'utf-8', 'utf-16', 'utf-16-le', 'utf-16-be',
                  'utf-32', 'utf-32-le', 'utf-32-be', 'cp037', 'UTF16',
                  'U32'):
        for kind in ('unix', 'dos'):
            text.get_newline_for_type(kind, codec)
            text.guess_line_endings('a\r\nb'.encode(codec), codec)
            text.strip_bom('x'.encode(codec), codec)
    idx = 0
    for length in range(1, L + 1):
        for tup in itertools.product(ALPHABET, repeat=length):
            idx += 1
            if not ctx.mine(idx):
                continue
            data = b''.join(tup)
            for nl in NEWLINES:
                check(split_lines, data, nl, obs)
                n_cases += 1
                if nl[0:1] in data or (len(nl) > 1 and b'\n' in data):
                    n_nontrivial += 1
    obs.case(None, nontrivial=False, n=n_cases)
    obs.distinct_by_construction(n_nontrivial)
    obs.count('enumerated_max_length', L if ctx.index == 0 else 0)
    obs.count('enumerated_pairs', n_cases)
    obs.exhaustive = True
    if ctx.index == 0:
        obs.sample({'data': b'a\r\n\n\x00', 'newline': b'\r\n'})
    # random longer strings, through the contracted binding this time
    import pydiffx.utils.text as text
    n = ctx.share(ctx.pick(20000, 400000))
    for _ in range(n):
        nl = rng.choice(NEWLINES)
        parts = []
        for _ in range(rng.randint(1, 40)):
            r = rng.random()
            if r < 0.4:
                parts.append(nl)
            elif r < 0.6:
                parts.append(rng.choice(NEWLINES))
            elif r < 0.7:
                parts.append(nl[:-1])
            else:
                parts.append(bytes(rng.choice(b'\r\n\x00 ab#')
                                   for _ in range(rng.randint(0, 100))))
        data = b''.join(parts) or b'x'
        obs.case((data, nl), nontrivial=nl in data)
        check(text.split_lines, data, nl, obs)
    obs.count('random_long_strings', n)
    # pairs of buffers with equal length and identical first / last KB that
    # differ only in the middle (result caches keyed too cheaply)
    if ctx.index < 4:
        for nl in NEWLINES[:4]:
            head = (b'h' * 50 + nl) * 40
            tail = (b't' * 50 + nl) * 40
            for mid_a, mid_b in ((b'a' * 30 + nl + b'b' * 29, b'c' * 59 + nl),
                                 (nl * 5 + b'z' * 10, b'z' * 10 + nl * 5)):
                pad = b'm' * (len(mid_a) - len(mid_b)) \
                    if len(mid_a) > len(mid_b) else b''
                a = head + mid_a + tail
                b = head + mid_b + pad + tail
                if len(a) == len(b):
                    for _ in range(2):
                        check(text.split_lines, a, nl, obs)
                        check(text.split_lines, b, nl, obs)
                    obs.count('same_ends_pairs_checked')
    # buffers > 1 MiB whose single line is longer than any I/O block
    if ctx.index in (4 % ctx.n, 5 % ctx.n):
        M = 1 << 20
        for nl in NEWLINES[:2]:
            big = b'k' * (M + 4321)
            for data in (big + nl + b'short' + nl, b'first' + nl + big,
                         big + nl + big + nl):
                obs.case((len(data), nl, 'huge'), nontrivial=True)
                check(text.split_lines, data, nl, obs)
                obs.count('huge_line_buffers_checked')
    check_boundary_buffers(ctx, text.split_lines)
    check_long_lines_and_counts(ctx, text.split_lines)
    # tokens that appear as literals in the library's own source
    try:
        from mon.gen import dictionary
        toks = dictionary.as_bytes()
    except Exception:
        toks = []
    for k in range(ctx.share(ctx.pick(3000, 60000)) if toks else 0):
        nl = rng.choice(NEWLINES)
        parts = []
        for _ in range(rng.randint(2, 12)):
            r = rng.random()
            parts.append(rng.choice(toks) if r < 0.5 else
                         (nl if r < 0.8 else b'x' * rng.randint(0, 9)))
        data = b''.join(parts) or b'x'
        obs.case((data, nl, 'dict'), nontrivial=nl in data)
        check(text.split_lines, data, nl, obs)
        obs.count('dictionary_strings')
    # very large buffers, the SAME object split repeatedly in both modes
    # (size thresholds, result caching)
    if ctx.index < 4:
        for size in (65535, 65536, 65537, 200000):
            for nl in NEWLINES[:4]:
                unit = (b'line %d' % size) + nl
                data = (unit * (size // len(unit) + 1))[:size - len(nl)] + nl
                if ctx.index % 2:
                    data = data[:-len(nl)] + b'x'      # unterminated
                obs.case((size, nl, ctx.index % 2, 'big'), nontrivial=True)
                for _ in range(3):
                    check(text.split_lines, data, nl, obs)
                obs.count('large_buffers_checked')


def replay(case, obs):
    split_lines = contracts.original('split_lines')
    obs.case(None, nontrivial=False)
    if 'long_line' in case:
        B, j, tag = case['long_line']
        nl = case['newline']
        line = b'x' * (B - j) + nl
        data = {'first': line + b'second' + nl,
                'at_boundary': b'p' * (B - len(nl)) + nl + line + b'z',
                'twice': line + line + b'tail'}[tag]
        return check(split_lines, data, nl, obs, case=case)
    if 'line_count' in case:
        nl = case['newline']
        data = (b'a' + nl) * case['line_count'] + (
            b'' if case['final'] else b'end')
        return check(split_lines, data, nl, obs, case=case)
    if 'boundary_buffer' in case:
        data = boundary_buffer(case['boundary_buffer'], case['newline'],
                               case['seed'])
        return check(split_lines, data, case['newline'], obs, case=case)
    check(split_lines, case['data'], case['newline'], obs)
