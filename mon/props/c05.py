"""C05 - object model written then parsed gives back the same tree."""
from mon.gen import trees
from mon.oracle import treesnap
from mon.oracle.serializer import serialize
from mon.props import common

LEVEL = 'exploration'
RULE = ('random tree specifications (0-3 changes x 0-3 files, every content '
        'section present / empty / absent, per-section encoding, indent, '
        'line_endings, mimetype, format, type options) are built through '
        'the public constructors, add_change / add_file keyword attributes '
        'and typed attributes in random order; the live tree is snapshotted '
        'through public attributes, serialised with to_bytes() and parsed '
        'back with DiffX.from_bytes(). Oracles: snapshot == specification; '
        'bytes == spec serializer applied to the snapshot; parsed snapshot == '
        'snapshot derived from the serializer layout (the documented '
        'normalisation). Trees whose serialisation raises are counted and '
        'skipped. Non-trivial = serialised tree with >= 2 content sections; '
        'distinct = fingerprint of the specification.')
RULE += (
         ' Also: groups of 2-4 independent trees serialised / parsed / re-'
         'serialised in threads under the seeded baton scheduler must give '
         'what each gives alone. Process axes (DESIGN 2.8): 2 of 16 shards '
         'run under python -O, 4 of 16 after a hostile warm-up of the '
         'library.')
FLOOR = {'quick': 3000, 'thorough': 100000}
REQUIRED_REACH = ['dom/writer.py:', 'dom/reader.py:']
REQUIRED_COUNTERS = ['serialised', 'parsed_back_and_compared']
ASSUMPTIONS = [
    'metadata values are JSON values with string keys (what JSON can carry)',
    'documented normalisation = options exactly as the canonical headers '
    'carry them minus length; absent/empty content sections come back '
    'empty with default options',
]


_shared = {}


def check_case(spec, seed, obs, tag='random'):
    import random
    from pydiffx.dom import DiffX
    rng = random.Random(seed)
    case = {'spec': spec, 'build_seed': seed}
    edited = seed % 5 == 0
    try:
        tree = trees.build(spec, rng)
        if edited:
            # the public changes / files lists edited directly after the
            # tree was built with add_change / add_file: the tree IS what
            # its lists say
            trees.reverse_in_place(tree)
            spec = trees.reversed_spec(spec)
            obs.count('trees_with_lists_edited_in_place')
    except Exception as e:
        obs.case(None, nontrivial=False)
        obs.violation('valid_construction_rejected:%s'
                      % common.exc_mechanism(e), case, repr(e)[:200])
        return
    snap = treesnap.snapshot(tree)
    want_snap = trees.intended_snapshot(spec)
    d = treesnap.first_diff(want_snap, snap)
    if d is not None:
        obs.case(None, nontrivial=False)
        obs.violation('tree_differs_from_construction:%s' % d[1], case,
                      {'path': d[0], 'values': d[2]})
        return
    try:
        data = tree.to_bytes()
    except Exception as e:
        obs.case(spec, nontrivial=False)
        obs.count('serialisation_raised:%s' % type(e).__name__)
        return
    obs.count('serialised')
    doc = treesnap.to_recipe(snap)
    want, layout = serialize(doc)
    ncontent = sum(1 for s in layout if 'coff' in s)
    obs.case(spec, nontrivial=ncontent >= 2)
    obs.count('case:%s' % tag)
    if not common.bytes_equivalent(data, want, layout)[0]:
        i = next((j for j in range(min(len(data), len(want)))
                  if data[j] != want[j]), min(len(data), len(want)))
        sec = [s for s in layout if s['hoff'] <= i][-1]
        obs.violation('bytes_not_canonical_serialisation:%s' % sec['kind'],
                      case, {'offset': i, 'section': sec['id'],
                             'got': data[max(0, i - 30):i + 60],
                             'want': want[max(0, i - 30):i + 60]})
        return
    # the documented reusable writer object must give the same bytes
    try:
        import io as _io
        from pydiffx.dom.writer import DiffXDOMWriter
        if 'w' not in _shared:
            _shared['w'] = DiffXDOMWriter()
        s2 = _io.BytesIO()
        _shared['w'].write_stream(tree, s2)
        obs.count('shared_dom_writer_compared')
        if s2.getvalue() != data:
            obs.violation('reused_dom_writer_gives_other_bytes', case,
                          {'got': s2.getvalue()[:200]})
            return
    except Exception as e:
        obs.violation('reused_dom_writer_raised:%s'
                      % common.exc_mechanism(e), case, repr(e)[:200])
        return
    # observers must not have changed the tree
    if treesnap.first_diff(snap, treesnap.snapshot(tree)):
        obs.violation('to_bytes_mutated_tree', case)
    try:
        back = DiffX.from_bytes(data)
    except Exception as e:
        obs.violation('own_output_rejected:%s' % common.exc_mechanism(e),
                      case, repr(e)[:300])
        return
    obs.count('parsed_back_and_compared')
    got = treesnap.snapshot(back)
    expect = treesnap.from_layout(layout)
    d = treesnap.first_diff(expect, got)
    if d is not None:
        obs.violation('parsed_tree_differs:%s' % d[1], case,
                      {'path': d[0], 'values': d[2]})
        return
    # second cycle is a fixed point
    try:
        again = back.to_bytes()
    except Exception as e:
        obs.violation('reserialise_raised:%s' % common.exc_mechanism(e),
                      case, repr(e)[:300])
        return
    if again != data:
        obs.violation('reserialised_bytes_differ', case)


def run(ctx):
    obs = ctx.obs
    rng = ctx.rng
    if ctx.index == 0:
        for indent in (255, 256, 4096, 65535, 65536, 70001):
            spec = {'encoding': None, 'preamble': {
                'text': 'a\n  b\n\nc', 'encoding': None, 'indent': indent,
                'line_endings': None, 'mimetype': None},
                'meta': {'obj': {'k': 1}, 'encoding': None, 'format': None},
                'changes': [{'encoding': 'utf-16', 'preamble': {
                    'text': 'x\ny\n', 'encoding': None, 'indent': indent,
                    'line_endings': 'dos', 'mimetype': None},
                    'meta': {'obj': None, 'encoding': None, 'format': None},
                    'files': [{'encoding': None, 'meta': {
                        'obj': {'p': 1}, 'encoding': None, 'format': None},
                        'diff': {'data': None, 'encoding': None,
                                 'line_endings': None, 'type': None}}]}]}
            check_case(spec, 1, obs, 'large_indent')
    n = ctx.share(ctx.pick(10000, 300000))
    for k in range(n):
        spec = trees.gen_tree(rng, wild=rng.random() < 0.25)
        seed = rng.randrange(1 << 30)
        check_case(spec, seed, obs)
        if k < 2 and ctx.index == 0:
            obs.sample({'spec': spec})
    concurrent_pass(ctx, ctx.share(ctx.pick(120, 3000)))


def tree_thunk(item):
    """Build the tree (outside the schedule), return a thunk that serialises
    it, parses the bytes back and serialises again."""
    import random
    from pydiffx.dom import DiffX
    spec, seed = item
    tree = trees.build(spec, random.Random(seed))

    def thunk():
        data = tree.to_bytes()
        back = DiffX.from_bytes(data)
        return [data, treesnap.snapshot(back), back.to_bytes()]
    return thunk


def concurrent_pass(ctx, n_groups):
    """Independent trees serialised / parsed in several threads at once."""
    rng = ctx.rng
    for _ in range(n_groups):
        items = [[trees.gen_tree(rng), rng.randrange(1 << 30)]
                 for _ in range(rng.randint(2, 4))]
        ctx.obs.case(('concurrent', items))
        try:
            common.check_concurrent(ctx.obs, rng, items, tree_thunk, 'trees')
        except Exception as e:
            ctx.obs.count('concurrent:construction_raised(see main pass)')


def replay(case, obs):
    if 'concurrent' in case:
        return common.replay_concurrent(case, obs, tree_thunk)
    check_case(case['spec'], case['build_seed'], obs, 'replay')
