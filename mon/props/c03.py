"""C03 - reader agrees with the specification on foreign well-formed files."""
import re

from mon.gen import recipe, texts
from mon.oracle.serializer import serialize, expected_records, Style
from mon.props import common

LEVEL = 'exploration'
RULE = ('well-formed files are produced by the independent spec serializer '
        'from random recipes with the liberties other producers take '
        '(options in random order, optional options absent, blank lines '
        'between sections, CRLF header lines, compact / 2-space / CRLF / '
        'raw-unicode JSON, files with no encoding anywhere) and read with the '
        'real DiffXReader; records (id, level, logical line, options, '
        'content) must equal those derived from the recipe. Then every '
        'applicable single defect of the catalogue (version=2.0, version '
        'missing, length missing, content not ending in its newline, '
        'format=yaml, invalid JSON, line_endings=mac) is applied to every '
        'section in turn and must give a DiffXParseError whose line lies in '
        "the offending section, with the earlier records intact. "
        'Non-trivial = file uses at least one foreign liberty or is a defect '
        'case; distinct = fingerprint of the bytes.')
RULE += (
         ' Also: files with runs of up to 4000 blank lines, indented '
         'preambles whose blank lines carry no padding (content shorter than'
         ' the declared indent), reading through real buffered / unbuffered '
         'files and gzip / bz2 / xz streams, and 2-4 readers at work at once'
         ' (threads under the seeded scheduler, interleaved generators). '
         'Process axes (DESIGN 2.8): 2 of 16 shards run under python -O, 4 '
         'of 16 after a hostile warm-up of the library.')
FLOOR = {'quick': 8000, 'thorough': 200000}
REQUIRED_REACH = ['reader.py:']
REQUIRED_COUNTERS = ['wellformed_files', 'defects_checked',
                     'style:crlf_headers', 'style:blank_lines',
                     'style:shuffled', 'style:no_encoding_anywhere']
ASSUMPTIONS = [
    'logical line numbers count header and content lines, not blank '
    'separator lines',
    'UTF-16/32 newline look-alike characters are only generated where the '
    'spec reading is unambiguous (line_endings declared or byte-level and '
    'text-level detection agree)',
    'text declared as "utf-16"/"utf-32" (with BOM) is in the platform byte '
    'order, as Python and the reference writer produce it',
]

JSON_STYLES = ['canonical', 'compact', 'spaced', 'indent2', 'raw_unicode',
               'crlf']


def gen_foreign(rng):
    if rng.random() < 0.12:
        doc = ascii_doc(rng)
        tag = 'no_encoding_anywhere'
    else:
        doc = recipe.gen_doc(rng, max_changes=3, max_files=3, enc_p=0.3)
        tag = None
    unpadded = rng.random() < 0.1
    if unpadded:
        recipe.blank_lines_style(doc, rng)
    recipe.annotate_droppable(doc)
    # now and then a file with thousands of blank lines between sections
    # and at its end
    gaps = rng.random() < 0.01
    extra = None
    if rng.random() < 0.3:
        # options a producer adds for itself, with every kind of value the
        # grammar allows (integers - negative, zero-padded, huge - must come
        # back as integers)
        def extra(index, sid, pairs):
            if rng.random() < 0.4:
                k = rng.choice(['x-n', 'tz-offset', 'rev', 'net', 'Build_9'])
                v = rng.choice(['-8', '0', '12', '-0', '007', 'a1b2',
                                '4407312', 'text/x', '1.5', '-', '9' * 30,
                                '-15', '0-1'])
                if not any(kk == k for kk, _ in pairs):
                    pairs = pairs + [(k, v)]
                    rng.shuffle(pairs)
            name = sid.lstrip('.')
            if name in ('diff', 'meta', 'change', 'file') and \
                    rng.random() < 0.25 and \
                    not any(kk == 'indent' for kk, _ in pairs):
                # options that mean something on another kind of section
                # are just producer options here
                pairs = pairs + [('indent', rng.choice(['1', '2', '4',
                                                        '8']))]
            return pairs
    st = Style(rng=rng, extra=extra,
               shuffle=rng.random() < 0.7,
               blank=rng.choice([0, 0, 1, 3]) if not gaps else 4000,
               crlf_headers=rng.random() < 0.35,
               drop=rng.sample(['line_endings', 'format', 'mimetype', 'type',
                                'indent'], rng.randint(0, 4)),
               json_style=rng.choice(JSON_STYLES),
               trailing_blank=rng.choice([0, 0, 2]) if not gaps else 4000,
               meta_line_endings=rng.random() < 0.2,
               unpadded_blank=unpadded)
    data, layout = serialize(doc, st)
    if gaps and tag is None:
        tag = 'long_blank_runs'
    return doc, st, data, layout, tag


def ascii_doc(rng):
    """A file that declares no encoding anywhere: content stays bytes."""
    def pre():
        t = texts.restrict(texts.text(rng, 'ascii', lookalikes=False),
                           'ascii')
        return {'text': t, 'encoding': None,
                'indent': rng.choice([None, 0, 2, 4]),
                'line_endings': rng.choice([None, 'unix', 'dos']),
                'mimetype': None, 'explicit': True}

    def meta():
        return {'obj': texts.json_object(rng), 'encoding': None}
    doc = {'encoding': None, 'changes': []}
    if rng.random() < 0.5:
        doc['preamble'] = pre()
    if rng.random() < 0.5:
        doc['meta'] = meta()
    for _ in range(rng.randint(1, 2)):
        ch = {'encoding': None, 'files': []}
        if rng.random() < 0.5:
            ch['preamble'] = pre()
        for _ in range(rng.randint(1, 2)):
            f = {'encoding': None, 'meta': meta()}
            if rng.random() < 0.6:
                f['diff'] = recipe.gen_diff(rng, 0.0)
            ch['files'].append(f)
        doc['changes'].append(ch)
    return doc


def check_wellformed(data, layout, obs, case):
    expected = expected_records(layout)
    got, exc, stream = common.read_records(data)
    if exc is not None:
        at = expected[len(got)]['section'] if len(got) < len(expected) \
            else 'end'
        obs.violation('wellformed_file_rejected:%s:in:%s' % (
            common.exc_mechanism(exc), at.lstrip('.')), case,
            {'error': repr(exc)[:300], 'records_before': len(got)})
        return False
    d = common.diff_records(expected, got)
    if d is not None:
        obs.violation('wellformed_file_misread:%s' % d[0], case, d[1])
        return False
    common.check_consumption(stream, obs)
    return True


# ------------------------------------------------------------------ defects
def _hdr(data, s):
    return data[s['hoff']:s['hoff'] + s['hlen']]


def _swap(data, s, new_header, new_content=None):
    end = s['hoff'] + s['hlen']
    if new_content is None:
        return data[:s['hoff']] + new_header + data[end:]
    return (data[:s['hoff']] + new_header + new_content +
            data[s['coff'] + s['clen']:])


def _set_opt(header, key, value):
    """Set / remove (value None) an option in a header line."""
    m = re.match(br'^(#\.{0,3}[a-z]+:)(?: (.*?))?(\r?\n)$', header, re.S)
    pairs = m.group(2).split(b', ') if m.group(2) else []
    pairs = [p for p in pairs if not p.startswith(key + b'=')]
    if value is not None:
        pairs.append(key + b'=' + value)
    out = m.group(1)
    if pairs:
        out += b' ' + b', '.join(pairs)
    return out + m.group(3)


def defects(data, layout):
    """Yield (name, section_index, mutated_bytes)."""
    for i, s in enumerate(layout):
        h = _hdr(data, s)
        if s['id'] == 'diffx':
            for v in (b'2.0', b'1.00', b'01.0', b'1.000', b'1', b'1.0.0',
                      b'1.1', b'10', b'0', b'v1.0', b'1.0-'):
                yield 'version_unsupported', i, _swap(
                    data, s, _set_opt(h, b'version', v))
            yield 'version_missing', i, _swap(
                data, s, _set_opt(h, b'version', None))
            continue
        if 'coff' not in s:
            continue
        raw = data[s['coff']:s['coff'] + s['clen']]
        yield 'length_missing', i, _swap(data, s, _set_opt(h, b'length',
                                                           None))
        nl = s['nl']
        # last content bytes are not the newline (length kept)
        if len(raw) > len(nl):
            bad = raw[:-len(nl)] + b'x' * len(nl)
            yield 'content_not_ending_in_newline', i, _swap(data, s, h, bad)
        for v in (b'mac', b'DOS', b'Unix', b'unix2', b'1', b'crlf'):
            yield 'line_endings_unknown', i, _swap(
                data, s, _set_opt(h, b'line_endings', v))
        if s['kind'] == 'meta':
            for v in (b'yaml', b'0', b'00', b'-0', b'1', b'JSON', b'Json',
                      b'json2', b'xml', b'js'):
                yield 'format_not_json', i, _swap(
                    data, s, _set_opt(h, b'format', v))
            codec = s.get('codec') or 'ascii'
            sig = ''.encode(codec)
            for txt in ('{"k": }', '{"k": 1,}', "{'k': 1}", '{"k" 1}',
                        '{"k": 1'):
                body = txt.encode(codec)
                body = body + nl
                nh = _set_opt(h, b'length', b'%d' % len(body))
                yield 'invalid_json', i, _swap(data, s, nh, body)
                break


def check_defect(name, idx, bad, layout, obs, case):
    expected = expected_records(layout)
    got, exc, _ = common.read_records(bad)
    sec = layout[idx]
    obs.count('defects_checked')
    obs.count('defect:%s' % name)
    if exc is None:
        obs.violation('defect_accepted:%s' % name, case,
                      {'section': sec['id']})
        return
    if not common.is_parse_error(exc):
        obs.violation('defect_raised:%s:%s' % (name,
                                               common.exc_mechanism(exc)),
                      case, repr(exc)[:300])
        return
    if len(got) != idx or common.diff_records(expected[:idx], got):
        obs.violation('defect_records_before_error_not_prefix:%s' % name,
                      case, {'records': len(got), 'offending_index': idx})
        return
    first = sec['line']
    nlines = 0
    if 'coff' in sec:
        nlines = layout[idx + 1]['line'] - first - 1 \
            if idx + 1 < len(layout) else None
    last = first + nlines if nlines is not None else None
    ln = exc.linenum
    if ln < first or (last is not None and ln > last):
        obs.violation('defect_error_line_outside_section:%s' % name, case,
                      {'linenum': ln, 'section_lines': [first, last]})


def run(ctx):
    obs = ctx.obs
    rng = ctx.rng
    n = ctx.share(ctx.pick(10000, 300000))
    defect_every = ctx.pick(20, 8)
    for k in range(n):
        doc, st, data, layout, tag = gen_foreign(rng)
        case = {'file': data}
        foreign = not st.canonical or tag is not None
        obs.case(data, nontrivial=foreign)
        obs.count('wellformed_files')
        for name, on in (('crlf_headers', st.crlf_headers),
                         ('blank_lines', st.blank), ('shuffled', st.shuffle),
                         ('dropped_options', bool(st.drop)),
                         ('json_%s' % st.json_style, True),
                         (tag, tag is not None)):
            if on:
                obs.count('style:%s' % name)
        ok = check_wellformed(data, layout, obs, case)
        if ok and k % 61 == 0:
            common.check_real_streams(data, obs, {'file': data,
                                                  'real_streams': True})
        if k < 2 and ctx.index == 0:
            obs.sample({'file': data[:600]})
        if ok and k % defect_every == 0 and len(data) < 5000:
            for name, idx, bad in defects(data, layout):
                obs.case(bad, nontrivial=True)
                check_defect(name, idx, bad, layout, obs,
                             {'file': data, 'defect': name,
                              'section_index': idx, 'mutated': bad})
    # the specification's reading of one file does not depend on other
    # readers being at work in the same process
    common.reader_concurrency_pass(
        ctx, lambda r: gen_foreign(r)[2], ctx.share(ctx.pick(100, 2500)))


def replay(case, obs):
    from mon.oracle import scanner
    if 'concurrent' in case or 'interleaved' in case:
        return common.replay_reader_concurrency(case, obs)
    if case.get('real_streams'):
        return common.check_real_streams(case['file'], obs, case)
    obs.case(None, nontrivial=False)
    data = case['file']
    if 'defect' in case:
        got, exc, _ = common.read_records(case['mutated'])
        if exc is None:
            obs.violation('defect_accepted:%s' % case['defect'], case)
        elif not common.is_parse_error(exc):
            obs.violation('defect_raised:%s:%s' % (
                case['defect'], common.exc_mechanism(exc)), case, repr(exc))
        return
    got, exc, _ = common.read_records(data)
    secs, problems = scanner.scan(data)
    if exc is not None:
        obs.violation('wellformed_file_rejected:%s:in:?'
                      % common.exc_mechanism(exc), case, repr(exc))
