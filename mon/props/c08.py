"""C08 - reader error contract on arbitrary bytes."""
import io
import os

from mon import env
from mon.core import Watchdog, CaseTimeout
from mon.gen import corrupt
from mon.monitor import failpoints
from mon.monitor.streams import MonitoredStream
from mon.oracle.serializer import serialize, Style
from mon.gen import recipe
from mon.props import common

LEVEL = 'fault_enumeration'
RULE = ('fault enumeration over inputs: well-formed files (spec-serialized '
        'random recipes, canonical and foreign layouts) are damaged by a '
        'catalogue of 15 corruption operators (hostile option values for '
        'length / indent / encoding / line_endings / format / version, token '
        'and separator damage, mixed header newlines, deleted / duplicated / '
        'swapped lines and sections, undecodable content with the length '
        'kept, odd byte counts for UTF-16/32, empty content, JSON special '
        'cases incl. non-objects, 4400-digit ints and 100k-deep nesting, '
        'foreign bytes in headers, 1-3 random byte edits, random bytes); '
        'each input is (a) iterated with the real DiffXReader, (b) loaded '
        'with DiffX.from_bytes, (c) loaded with DiffX.from_stream from an '
        'instrumented BytesIO and from a real file. Oracle: only '
        'DiffXParseError (reader) / BaseDiffXError family (object model) may '
        'escape; linenum within the input; message == "Error on line '
        '{linenum+1}[, column {column+1}]: ..."; stream closed afterwards; '
        'bounded time. Fail-points: for sampled files an exception is '
        'injected at every eligible pydiffx line executed after the first '
        'read of a from_stream load; the stream must be closed. '
        'Non-trivial = input differs from its well-formed base; distinct = '
        'fingerprint of the input bytes.')
RULE += (
         ' Also: metadata nested to 29 depths from 20 to 20000 (lists, '
         'dicts, mixed, bare arrays; main / change / file level) through '
         'reader and object model, called from a shallow, a 300- and a '
         '700-frame-deep stack. Process axes (DESIGN 2.8): 2 of 16 shards '
         'run under python -O, 4 of 16 after a hostile warm-up of the '
         'library.')
FLOOR = {'quick': 20000, 'thorough': 500000}
REQUIRED_REACH = ['reader.py:', 'dom/reader.py:']
REQUIRED_COUNTERS = ['reader_outcome:parse_error', 'reader_outcome:completed',
                     'dom_outcome:library_error', 'stream_closed_checked',
                     'failpoints_injected']
ASSUMPTIONS = [
    'linenum bound: <= number of LF bytes + 1 (a line ends in LF in every '
    'ASCII-compatible encoding); when a UTF-16/32 or EBCDIC encoding is '
    'declared anywhere the bound is len(input)',
    'a watchdog firing (20 s per input) is inconclusive, not a violation',
]

WIDE = (b'utf-16', b'utf-32', b'utf_16', b'utf_32', b'cp037', b'cp500',
        b'cp1140', b'cp273', b'cp1026', b'U16', b'U32', b'utf16', b'utf32')


class ArmingStream(MonitoredStream):
    def read(self, n=-1):
        d = MonitoredStream.read(self, n)
        failpoints.arm()
        return d


class NonSeekableStream(io.RawIOBase):
    def __init__(self, data):
        io.RawIOBase.__init__(self)
        self._b = io.BytesIO(data)

    def readable(self):
        return True

    def seekable(self):
        return False

    def readinto(self, b):
        d = self._b.read(len(b))
        b[:len(d)] = d
        return len(d)


def line_bound(data):
    low = data.lower()
    if any(w.lower() in low for w in WIDE) or b'encoding=' not in low:
        pass
    if any(w.lower() in low for w in WIDE):
        return len(data) + 1
    return data.count(b'\n') + 1


def check_parse_error(e, data, obs, case, who):
    ln = getattr(e, 'linenum', None)
    col = getattr(e, 'column', None)
    if not isinstance(ln, int) or isinstance(ln, bool) or ln < 0:
        obs.violation('%s:parse_error_linenum_invalid' % who, case,
                      {'linenum': repr(ln), 'error': str(e)[:200]})
        return
    bound = line_bound(data)
    if ln > bound:
        obs.violation('%s:parse_error_linenum_beyond_input' % who, case,
                      {'linenum': ln, 'bound': bound, 'error': str(e)[:200]})
    prefix = 'Error on line %d' % (ln + 1)
    if col is not None:
        if not isinstance(col, int) or col < 0:
            obs.violation('%s:parse_error_column_invalid' % who, case,
                          {'column': repr(col)})
            return
        prefix += ', column %d' % (col + 1)
    prefix += ': '
    if not str(e).startswith(prefix):
        obs.violation('%s:parse_error_message_disagrees_with_attributes'
                      % who, case, {'message': str(e)[:200],
                                    'linenum': ln, 'column': col})
    obs.count('parse_error_attrs_checked')


def check_input(data, obs, names=('?',), base=None, real_file=False):
    from pydiffx.dom import DiffX
    from pydiffx.errors import BaseDiffXError, DiffXParseError
    case = {'input': data, 'ops': list(names)}
    obs.case(data, nontrivial=(base is None or data != base))
    for nme in names:
        obs.count('op:%s' % nme)
    try:
        with Watchdog(20):
            # (a) streaming reader
            recs, exc, stream = common.read_records(data)
            if exc is None:
                obs.count('reader_outcome:completed')
            elif isinstance(exc, DiffXParseError):
                obs.count('reader_outcome:parse_error')
                check_parse_error(exc, data, obs, case, 'reader')
            else:
                obs.count('reader_outcome:foreign_exception')
                obs.violation('reader:%s' % common.exc_mechanism(exc), case,
                              repr(exc)[:300])
            # (b) object model from bytes
            dexc = None
            try:
                DiffX.from_bytes(data)
            except Exception as e:
                dexc = e
            if dexc is None:
                obs.count('dom_outcome:loaded')
            elif isinstance(dexc, BaseDiffXError):
                obs.count('dom_outcome:library_error')
                if isinstance(dexc, DiffXParseError):
                    check_parse_error(dexc, data, obs, case, 'dom')
            else:
                obs.count('dom_outcome:foreign_exception')
                mech = common.exc_mechanism(dexc)
                # the same foreign exception escaping through the DOM is one
                # mechanism, reported once under the reader's name
                if not (exc is not None and
                        common.exc_mechanism(exc) == mech):
                    obs.violation('dom:%s' % mech, case, repr(dexc)[:300])
            # (c) from_stream closes the stream
            ms = MonitoredStream(data)
            try:
                DiffX.from_stream(ms)
            except Exception:
                pass
            obs.count('stream_closed_checked')
            if not ms.closed:
                obs.violation('stream_left_open:%s' % (
                    'after_success' if dexc is None else 'after_failure'),
                    case)
            if len(data) % 7 == 0:
                # forward-only stream (pipe / HTTP body): whatever the
                # loader makes of it, it must close what it was given
                ns = NonSeekableStream(data)
                try:
                    DiffX.from_stream(ns)
                except Exception:
                    pass
                obs.count('stream_closed_checked')
                obs.count('non_seekable_streams')
                if not ns.closed:
                    obs.violation('stream_left_open:non_seekable_stream',
                                  case)
            if real_file:
                d = os.path.join(env.OUT, 'tmp')
                os.makedirs(d, exist_ok=True)
                path = os.path.join(d, 'c08-%d.diffx' % os.getpid())
                with open(path, 'wb') as fh:
                    fh.write(data)
                fh = open(path, 'rb')
                try:
                    DiffX.from_stream(fh)
                except Exception:
                    pass
                obs.count('stream_closed_checked')
                obs.count('real_file_loads')
                if not fh.closed:
                    obs.violation('stream_left_open:real_file', case)
                    fh.close()
                os.unlink(path)
    except CaseTimeout:
        obs.count('watchdog_fired')
        obs.inconclusive_because('a case exceeded the 20 s watchdog '
                                 '(ops=%s)' % (list(names),))


def failpoint_sweep(data, obs, max_points=None, rng=None):
    """Inject at every eligible line of a from_stream load."""
    from pydiffx.dom import DiffX
    failpoints.begin(None)
    s = ArmingStream(data)
    try:
        DiffX.from_stream(s)
    except Exception:
        pass
    total, _ = failpoints.end()
    points = list(range(total))
    if max_points is not None and total > max_points:
        points = sorted(rng.sample(points, max_points))
    for k in points:
        failpoints.begin(k)
        s = ArmingStream(data)
        raised = None
        try:
            DiffX.from_stream(s)
        except failpoints.InjectedFault as e:
            raised = e
        except Exception as e:
            raised = e
        n, where = failpoints.end()
        if where is None:
            obs.count('failpoint_not_reached')
            continue
        obs.count('failpoints_injected')
        obs.seen('failpoint_functions', where)
        obs.case(None, nontrivial=False)
        if not s.closed:
            obs.violation('stream_left_open:injected_fault_in:%s' % where,
                          {'input': data, 'failpoint': k},
                          {'raised': repr(raised)[:200]})
    obs.distinct_by_construction(len(points))


def gen_base(rng):
    doc = recipe.gen_doc(rng, max_changes=2, max_files=2, enc_p=0.35)
    if rng.random() < 0.3:
        recipe.annotate_droppable(doc)
        st = Style(rng=rng, shuffle=True, blank=rng.choice([0, 1]),
                   crlf_headers=rng.random() < 0.4,
                   drop=rng.sample(['line_endings', 'format', 'mimetype',
                                    'type', 'indent'], rng.randint(0, 3)),
                   json_style=rng.choice(['canonical', 'compact', 'crlf']))
        return serialize(doc, st)
    return serialize(doc)


DEPTHS = [20, 50, 100, 150, 200, 250, 300, 330, 400, 450, 490, 500, 510,
          600, 700, 800, 900, 950, 990, 1000, 1100, 1200, 1400, 1497, 1500,
          2000, 3000, 5000, 20000]


def nested_json(depth, shape):
    if shape == 'lists':
        return '{"k": ' + '[' * depth + ']' * depth + '}'
    if shape == 'dicts':
        return '{"k": ' + '{"a": ' * depth + '1' + '}' * depth + '}'
    if shape == 'mixed':
        return '{"k": ' + '[{"a": ' * (depth // 2) + '0' + \
            '}]' * (depth // 2) + '}'
    return '[' * depth + ']' * depth          # not even an object


def nested_doc(depth, shape, where):
    body = nested_json(depth, shape).encode('ascii') + b'\n'
    hdr = b'meta: format=json, length=%d\n' % len(body)
    if where == 'main':
        return (b'#diffx: encoding=utf-8, version=1.0\n#.' + hdr + body +
                b'#.change:\n#..file:\n#...meta: length=3\n{}\n')
    if where == 'change':
        return (b'#diffx: encoding=utf-8, version=1.0\n#.change:\n#..' + hdr +
                body + b'#..file:\n#...meta: length=3\n{}\n')
    return (b'#diffx: encoding=utf-8, version=1.0\n#.change:\n#..file:\n#...' +
            hdr + body)


def _at_stack_depth(k, fn):
    if k <= 0:
        return fn()
    return _at_stack_depth(k - 1, fn)


def depth_sweep(ctx):
    """Metadata nested to every depth around the interpreter's recursion
    limit, through the streaming reader and the object model, called from a
    shallow and from a deep Python stack."""
    obs = ctx.obs
    i = 0
    for depth in DEPTHS:
        for shape in ('lists', 'dicts', 'mixed', 'bare'):
            for where in ('main', 'change', 'file'):
                for frames in (0, 300, 700):
                    i += 1
                    if not ctx.mine(i):
                        continue
                    if ctx.quick and (i // ctx.n) % 3:
                        continue
                    data = nested_doc(depth, shape, where)
                    obs.count('depth_sweep_inputs')
                    _at_stack_depth(frames, lambda: check_input(
                        data, obs, ('nested_json_depth',), base=b''))


def run(ctx):
    obs = ctx.obs
    rng = ctx.rng
    depth_sweep(ctx)
    n = ctx.share(ctx.pick(50000, 2500000))
    per_base = 25
    done = 0
    while done < n:
        data, layout = gen_base(rng)
        if len(data) > 6000:
            continue
        check_input(data, obs, ('intact',), base=None,
                    real_file=(done % 500 == 0))
        for _ in range(per_base):
            k = 1 if rng.random() < 0.75 else rng.randint(2, 3)
            names, bad = corrupt.corrupt(rng, data, layout, k)
            if not names:
                continue
            check_input(bad, obs, names, base=data,
                        real_file=(done % 997 == 0))
            done += 1
        if done <= per_base and ctx.index == 0:
            obs.sample({'ops': names, 'input': bad[:300]})
    # fail-points
    if failpoints.available():
        failpoints.start()
        try:
            nf = ctx.share(ctx.pick(32, 1200))
            for _ in range(nf):
                data, layout = gen_base(rng)
                if len(data) > 2500:
                    continue
                if rng.random() < 0.3:
                    _, data = corrupt.corrupt(rng, data, layout, 1)
                failpoint_sweep(data, obs, max_points=ctx.pick(150, 400),
                                rng=rng)
        finally:
            failpoints.stop()
    else:
        obs.inconclusive_because('sys.monitoring unavailable: no fail-points')


def replay(case, obs):
    if 'failpoint' in case:
        failpoints.start()
        try:
            from pydiffx.dom import DiffX
            failpoints.begin(case['failpoint'])
            s = ArmingStream(case['input'])
            try:
                DiffX.from_stream(s)
            except Exception:
                pass
            n, where = failpoints.end()
            obs.case(None, nontrivial=False)
            if where is not None and not s.closed:
                obs.violation('stream_left_open:injected_fault_in:%s' % where,
                              case)
        finally:
            failpoints.stop()
        return
    check_input(case['input'], obs, case.get('ops', ('?',)))
