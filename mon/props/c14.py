"""C14 - unified-diff hunk parser: exact geometry or a positioned error."""
from mon.gen import hunks
from mon.props import common

LEVEL = 'exploration'
RULE = ('line lists are assembled from 0-6 generated hunks whose geometry is '
        'known by construction (start lines incl. 0 and 11-digit values, '
        'counts incl. 0 and omitted ",1", sides of 0-12 lines, payloads that '
        'look like file headers / hunk headers / markers, "\\ No newline" '
        'markers at interior positions, garbage between hunks when it is to '
        'be ignored, trailing non-hunk material in strict mode) and parsed '
        'with the real get_unified_diff_hunks (wrapped in deal.raises('
        'MalformedHunkError) and an icontract post-condition on the totals); '
        'the result is compared field by field with the model. Every '
        'generated diff is then damaged at a random body position of every '
        'hunk in four ways (ends early, interrupted by a header, illegal '
        'line inserted, body line replaced) and must raise MalformedHunkError '
        'naming that line. Random lists of random byte lines and the empty '
        'list must not raise anything else. Non-trivial = at least one hunk '
        'with a change; distinct = fingerprint of the line list + mode.')
RULE += (
         ' Process axes (DESIGN 2.8): 2 of 16 shards run under python -O, 4 '
         'of 16 after a hostile warm-up of the library.')
FLOOR = {'quick': 20000, 'thorough': 500000}
REQUIRED_REACH = ['get_unified_diff_hunks']
REQUIRED_COUNTERS = ['wellformed_compared', 'damages_checked',
                     'random_lists', 'empty_list_checked']
ASSUMPTIONS = [
    'a marker line after a hunk\'s counts are exhausted is outside the hunk '
    'for a count-driven parser: in strict mode it is generated only as the '
    'very last line and num_processed_lines may be n-1 or n',
    'markers are generated without leading whitespace (a line starting '
    'with a space is a context line)',
]

HUNK_KEYS = ('context', 'orig', 'modified', 'lines_of_context_pre',
             'lines_of_context_post')

_fn = {}


def parser():
    """The real function, wrapped with deal.raises when deal is available."""
    if 'f' in _fn:
        return _fn['f']
    import pydiffx.utils.unified_diffs as ud
    from pydiffx.errors import MalformedHunkError
    f = ud.get_unified_diff_hunks
    try:
        import deal
        f = deal.raises(MalformedHunkError)(f)
        _fn['lib'] = 'deal.raises'
    except Exception:
        _fn['lib'] = 'plain'
    _fn['f'] = f
    _fn['err'] = MalformedHunkError
    return f


def call(lines, ignore_garbage):
    f = parser()
    try:
        return f(list(lines), ignore_garbage=ignore_garbage), None
    except Exception as e:
        return None, e


def exc_kind(e):
    """MalformedHunkError -> 'malformed'; anything else -> class name (deal
    wraps foreign exceptions in RaisesContractError, unwrap for naming)."""
    if isinstance(e, _fn['err']):
        return 'malformed'
    cause = getattr(e, '__cause__', None) or getattr(e, '__context__', None)
    name = type(e).__name__
    if name == 'RaisesContractError' and cause is not None:
        return type(cause).__name__
    return name


def check_wellformed(lines, expected, ig, obs):
    res, exc = call(lines, ig)
    case = {'lines': lines, 'ignore_garbage': ig}
    nontrivial = any(h['orig']['num_lines_changed'] or
                     h['modified']['num_lines_changed']
                     for h in expected['hunks'])
    obs.case((tuple(lines), ig), nontrivial=nontrivial)
    obs.count('wellformed_compared')
    if exc is not None:
        k = exc_kind(exc)
        if k == 'malformed':
            obs.violation('wellformed_hunks_rejected', case,
                          {'error': str(exc)[:200]})
        else:
            obs.violation('foreign_exception:%s' % k, case, repr(exc)[:200])
        return False
    if len(res['hunks']) != len(expected['hunks']):
        obs.violation('hunk_count', case, {'got': len(res['hunks']),
                                           'want': len(expected['hunks'])})
        return False
    for i, (g, w) in enumerate(zip(res['hunks'], expected['hunks'])):
        for key in HUNK_KEYS:
            if key not in g:
                obs.violation('hunk_field_missing:%s' % key, case)
                return False
            if isinstance(w[key], dict):
                for sub, wv in w[key].items():
                    if not common.strict_equal(g[key].get(sub), wv):
                        obs.violation('hunk_geometry:%s.%s' % (key, sub),
                                      case, {'hunk': i, 'got': g[key].get(sub),
                                             'want': wv})
                        return False
            elif not common.strict_equal(g[key], w[key]):
                obs.violation('hunk_geometry:%s' % key, case,
                              {'hunk': i, 'got': g[key], 'want': w[key]})
                return False
    for key in ('total_inserts', 'total_deletes'):
        if res[key] != expected[key]:
            obs.violation('totals:%s' % key, case,
                          {'got': res[key], 'want': expected[key]})
            return False
    wp = expected['num_processed_lines']
    ok = res['num_processed_lines'] in wp if isinstance(wp, tuple) \
        else res['num_processed_lines'] == wp
    if isinstance(wp, tuple):
        obs.count('tolerance:trailing_marker_strict')
    if not ok:
        obs.violation('num_processed_lines', case,
                      {'got': res['num_processed_lines'], 'want': wp})
        return False
    return True


def check_damage(name, dl, idx, bad, ig, obs):
    res, exc = call(dl, ig)
    case = {'lines': dl, 'ignore_garbage': ig, 'damage': name,
            'damaged_index': idx}
    obs.case((tuple(dl), ig, name), nontrivial=True)
    obs.count('damages_checked')
    obs.count('damage:%s' % name)
    if exc is None:
        obs.violation('damaged_hunk_accepted:%s' % name, case)
        return
    k = exc_kind(exc)
    if k != 'malformed':
        obs.violation('foreign_exception:%s' % k, case, repr(exc)[:200])
        return
    if exc.line_num != idx + 1 or exc.line != bad:
        obs.violation('error_names_wrong_line:%s' % name, case,
                      {'line_num': exc.line_num, 'line': exc.line,
                       'want_line_num': idx + 1, 'want_line': bad})


def run(ctx):
    obs = ctx.obs
    rng = ctx.rng
    parser()
    n = ctx.share(ctx.pick(12000, 1200000))
    for k in range(n):
        ig = rng.random() < 0.5
        lines, expected, spans = hunks.gen_diff(rng, ig)
        ok = check_wellformed(lines, expected, ig, obs)
        if k < 2 and ctx.index == 0:
            obs.sample({'lines': lines[:12], 'ignore_garbage': ig})
        if ok and k % 2 == 0:
            for name, dl, idx, bad in hunks.damages(rng, lines, spans,
                                                    expected, ig):
                check_damage(name, dl, idx, bad, ig, obs)
    # arbitrary lists: only MalformedHunkError may escape
    pool = hunks.GARBAGE + hunks.PAYLOADS + hunks.ILLEGAL + [
        b'@@ -1 +1 @@', b'@@ -1,2 +1,2 @@', b'@@ -0,0 +1 @@', b' a', b'-a',
        b'+a', b'@@ -1,0 +1,0 @@', b'@@ -99999999999999999999 +1 @@',
        # numbers beyond the interpreter's int<->str digit limit, in every
        # position of the header
        b'@@ -' + b'9' * 5000 + b' +1 @@',
        b'@@ -1,' + b'8' * 4301 + b' +1 @@',
        b'@@ -1 +' + b'7' * 6000 + b' @@',
        b'@@ -1,2 +1,' + b'1' + b'0' * 4400 + b' @@ ctx',
        b'## -1 +1 ##', b'## -1,2 +1,2 ##', b'@@@ -1 -1 +1 @@@',
        b'\\ No newline at end of property',
        b'\\ Kein Zeilenumbruch am Dateiende.', b'\\ ', b'\\']
    for ig in (False, True):
        res, exc = call([], ig)
        obs.case(('empty', ig), nontrivial=False)
        obs.count('empty_list_checked')
        if exc is not None:
            obs.violation('empty_list:%s' % exc_kind(exc),
                          {'lines': [], 'ignore_garbage': ig}, repr(exc))
        elif (res['hunks'] != [] or res['num_processed_lines'] != 0 or
              res['total_inserts'] or res['total_deletes']):
            obs.violation('empty_list_result', {'lines': [],
                                                'ignore_garbage': ig}, res)
    for _ in range(ctx.share(ctx.pick(12000, 900000))):
        ln = [rng.choice(pool) if rng.random() < 0.8 else
              bytes(rng.randrange(256) for _ in range(rng.randint(0, 12)))
              for _ in range(rng.randint(0, 14))]
        ig = rng.random() < 0.5
        res, exc = call(ln, ig)
        obs.case((tuple(ln), ig, 'rand'), nontrivial=False)
        obs.count('random_lists')
        if exc is not None:
            k = exc_kind(exc)
            if k != 'malformed':
                obs.violation('foreign_exception:%s' % k,
                              {'lines': ln, 'ignore_garbage': ig},
                              repr(exc)[:200])
            else:
                obs.count('random_list:malformed')
                if not (1 <= exc.line_num <= len(ln)) or \
                        exc.line != ln[exc.line_num - 1]:
                    obs.violation('error_position_inconsistent',
                                  {'lines': ln, 'ignore_garbage': ig},
                                  {'line_num': exc.line_num,
                                   'line': exc.line})
        else:
            obs.count('random_list:parsed')
    obs.notes.append('hunk parser wrapped with %s' % _fn.get('lib'))


def replay(case, obs):
    parser()
    lines = case['lines']
    ig = case['ignore_garbage']
    obs.case(None, nontrivial=False)
    res, exc = call(lines, ig)
    if 'damage' in case:
        check_damage(case['damage'], lines, case['damaged_index'],
                     lines[case['damaged_index']], ig, obs)
        return
    if exc is not None and exc_kind(exc) != 'malformed':
        obs.violation('foreign_exception:%s' % exc_kind(exc), case,
                      repr(exc))
