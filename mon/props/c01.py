"""C01 - streaming write -> read round trip."""
from mon.gen import recipe, texts
from mon.gen.codecs_cat import ROUNDTRIP
from mon.monitor.streams import MonitoredStream
from mon.oracle import jsoncanon, scanner
from mon.oracle.serializer import serialize, expected_records
from mon.props import common

LEVEL = 'exploration'
RULE = ('random document recipes (1-3 changes x 1-3 files, optional '
        'preamble/meta everywhere, independent per-section encoding '
        'overrides from 15 stateless codecs incl. UTF-16/32 with/without '
        'BOM, EBCDIC, CJK; indent in {None,0,1,2,4,7,13}; line_endings in '
        '{unset,unix,dos}; mimetype / diff type; hostile texts) plus a '
        'systematic codec x indent x line_endings x hostile-text sweep; each '
        'recipe is written with the real DiffXWriter and read back with the '
        'real DiffXReader; records are compared with records derived from '
        'the recipe by the spec serializer. Non-trivial = the document has '
        '>= 2 content sections or a non-UTF-8 effective encoding; distinct = '
        'fingerprint of the whole recipe.')
RULE += (
         ' Also: sections of 9 MiB (thorough: 8 MiB+1 .. 33 MiB+1, 9 MiB '
         'preambles in utf-8 / utf-16) followed by further sections. Process'
         ' axes (DESIGN 2.8): 2 of 16 shards run under python -O, 4 of 16 '
         'after a hostile warm-up of the library.')
FLOOR = {'quick': 2000, 'thorough': 50000}
REQUIRED_REACH = ['reader.py:', 'writer.py:']
ASSUMPTIONS = [
    'the oracle serializer (mon/oracle/serializer.py) is a faithful reading '
    'of docs/spec; it was cross-validated against the writer on the '
    'unchanged tree (C02)',
    'a "line" of encoded content is delimited by the byte sequence of the '
    "section's newline (byte-level), the reading both spec texts imply for "
    'indentation applied after encoding',
]


def check_case(doc, obs, tag='random'):
    calls = recipe.writer_calls(doc)
    stream = MonitoredStream()
    try:
        recipe.run_writer(calls, stream)
    except Exception as e:
        obs.case(None, nontrivial=False)
        obs.violation('writer_rejected_well_ordered_calls:%s'
                      % common.exc_mechanism(e), doc, repr(e))
        return
    data = stream.getvalue()
    oracle_bytes, layout = serialize(doc)
    expected = expected_records(layout)
    got, exc, rstream = common.read_records(data)
    ncontent = sum(1 for s in layout if s['kind'] != 'container')
    nontrivial = ncontent >= 2 or any(
        s.get('codec') not in (None, 'utf-8') for s in layout)
    obs.case(doc, nontrivial=nontrivial)
    obs.count('sections_compared', len(expected))
    obs.count('case:%s' % tag)
    for s in layout:
        if s['kind'] != 'container':
            obs.seen('codecs', s.get('codec') or 'none')
            if s['kind'] == 'preamble':
                obs.seen('indents', str(s['options'].get('indent')))
    if exc is not None:
        obs.violation('reader_failed_on_writer_output:%s'
                      % common.exc_mechanism(exc), doc,
                      {'error': repr(exc), 'records_before': len(got),
                       'at_section': expected[len(got)]['section']
                       if len(got) < len(expected) else None})
        return
    d = common.diff_records_tolerant(expected, got, data, oracle_bytes,
                                     layout)
    if d is not None:
        obs.violation('roundtrip:%s' % d[0], doc, d[1])
    common.check_consumption(rstream, obs)


def _json_spelling_only(data, layout, index):
    secs, problems = scanner.scan(data)
    if problems or len(secs) != len(layout):
        return False
    s = secs[index]
    if s.get('kind') != 'meta':
        return False
    try:
        text = s['raw'].decode(s['codec'])
    except Exception:
        return False
    return jsoncanon.same_layout(
        text.rstrip('\n'), jsoncanon.canonical(layout[index]['content']))


SWEEP_TEXTS = [
    'one line',
    'ends\n',
    'dos\r\nlines\r\n',
    '#.change:\n#..meta: length=3\n',
    ' leading space\n  two\n',
    'mixed\r\nnewlines\nhere',
    'lone\rcr\n',
    '\n',
    '\r\n',
    '\n\nblank lines\n\n',
    '﻿bom first\n',
    'nul\x00\n',
]


def sweep_cases():
    """Systematic codec x indent x line_endings x text sweep (preamble in a
    change + a diff with the same codec)."""
    out = []
    for codec in ROUNDTRIP:
        for indent in (None, 0, 1, 4, 13):
            for le in (None, 'unix', 'dos'):
                for t in SWEEP_TEXTS:
                    t2 = texts.restrict(t, codec)
                    out.append((codec, indent, le, t2))
    return out


def sweep_doc(codec, indent, le, t, via):
    pre = {'text': t, 'encoding': codec if via == 'own' else None,
           'indent': indent, 'line_endings': le, 'mimetype': None,
           'explicit': True}
    d = {'data': t.encode(codec), 'encoding': codec, 'line_endings': le,
         'type': None}
    ch = {'encoding': codec if via == 'change' else None, 'preamble': pre,
          'files': [{'encoding': None, 'meta': {'obj': {'k': t},
                                                 'encoding': None},
                     'diff': d}]}
    return {'encoding': codec if via == 'main' else 'utf-8', 'changes': [ch]}


def special_docs():
    """Documents built around exact sizes: content of about 1 MiB / 3 MiB
    (block-wise I/O), very large indents, first lines around 1 KiB / 4 KiB /
    8 KiB / 64 KiB (scan limits), with and without a final newline."""
    out = []

    def doc(pre=None, diff=None, enc='utf-8'):
        f = {'encoding': None, 'meta': {'obj': {'k': 'v'}, 'encoding': None}}
        if diff is not None:
            f['diff'] = {'data': diff, 'encoding': None, 'line_endings': None,
                         'type': None}
        ch = {'encoding': None, 'files': [f, {'encoding': None, 'meta': {
            'obj': {'after': 1}, 'encoding': None}}]}
        if pre is not None:
            ch['preamble'] = dict({'encoding': None, 'line_endings': None,
                                   'mimetype': None, 'explicit': True}, **pre)
        return {'encoding': enc, 'changes': [ch]}
    M = 1 << 20
    for size in (M - 1, M, M + 1, M + 12345, 3 * M + 7):
        for tail in (b'\n', b''):
            body = (b'+' + b'x' * 70 + b'\n') * (size // 72 + 1)
            out.append(doc(diff=body[:size - len(tail) - 1] + b'y' + tail))
        line = b'-' + b'L' * (size - 2)
        out.append(doc(diff=line + b'\n'))           # one line of ~1 MiB
        txt = ('p' * 63 + '\n') * (size // 64)
        out.append(doc(pre={'text': txt[:size - 1] + 'z', 'indent': 0}))
        out.append(doc(pre={'text': txt[:size // 8], 'indent': 3}))
    for indent in (255, 256, 1023, 1024, 4095, 4096, 65535, 65536, 70001):
        for enc in ('utf-8', 'utf-16'):
            out.append(doc(pre={'text': 'a\n  b\n', 'indent': indent},
                           enc=enc))
    for n in (1022, 1023, 1024, 1025, 4094, 4095, 4096, 4097, 8190, 8191,
              8192, 8193, 65535, 65536, 65537):
        for nl in ('\r\n', '\n'):
            t = 'F' * n + nl + 'second' + nl + 'third'
            out.append(doc(pre={'text': t, 'indent': 4}))
            out.append(doc(diff=t.encode()))
            out.append(doc(pre={'text': t, 'indent': 0}, enc='utf-16'))
    return out


def huge_docs(quick=True):
    """Content sections of 8 MiB and more (beyond any plausible single-read
    block), never an exact multiple of a power of two, always followed by
    further sections."""
    M = 1 << 20
    sizes = [9 * M + 3] if quick else [8 * M + 1, 9 * M + 3, 12 * M + 77,
                                       16 * M + 5, 33 * M + 1]
    out = []
    for size in sizes:
        body = (b'+' + b'x' * 70 + b'\n') * (size // 72 + 1)
        f1 = {'encoding': None, 'meta': {'obj': {'path': 'big'},
                                         'encoding': None},
              'diff': {'data': body[:size - 1] + b'\n', 'encoding': None,
                       'line_endings': None, 'type': None}}
        f2 = {'encoding': None, 'meta': {'obj': {'path': 'after'},
                                         'encoding': None},
              'diff': {'data': b'--- a\n+++ b\n@@ -1 +1 @@\n-a\n+b\n',
                       'encoding': None, 'line_endings': None, 'type': None}}
        out.append({'encoding': 'utf-8', 'changes': [
            {'encoding': None, 'files': [f1, f2]},
            {'encoding': None, 'files': [dict(f2)]}]})
    if not quick:
        txt = ('p' * 63 + '\n') * ((9 * M) // 64)
        for enc, indent in (('utf-8', 0), ('utf-16', 0), ('utf-8', 2)):
            pre = {'text': txt[:(9 * M) // (2 if enc == 'utf-16' else 1)],
                   'indent': indent, 'encoding': None, 'line_endings': None,
                   'mimetype': None, 'explicit': True}
            out.append({'encoding': enc, 'preamble': pre, 'changes': [
                {'encoding': None, 'files': [
                    {'encoding': None, 'meta': {'obj': {'path': 'after'},
                                                'encoding': None}}]}]})
    return out


def run(ctx):
    obs = ctx.obs
    rng = ctx.rng
    for i, d in enumerate(special_docs()):
        if ctx.mine(i):
            check_case(d, obs, 'special_sizes')
    for i, d in enumerate(huge_docs(ctx.quick)):
        if ctx.mine(i + 7):
            check_case(d, obs, 'huge_sections')
    # systematic sweep (deterministic, sharded)
    sw = sweep_cases()
    vias = ('own', 'change', 'main')
    stride = ctx.pick(3, 1)
    for i, (codec, indent, le, t) in enumerate(sw):
        if not ctx.mine(i):
            continue
        for j, via in enumerate(vias):
            if (i + j) % stride:
                continue
            check_case(sweep_doc(codec, indent, le, t, via), obs, 'sweep')
    n = ctx.share(ctx.pick(20000, 600000))
    from mon.gen import codecs_cat
    allc = sorted(codecs_cat.catalogue())
    for k in range(n):
        if k % 10 == 9:
            # any stateless text codec the interpreter knows, not only the 15
            # of the standard pool
            pool = rng.sample(allc, 4)
            doc = recipe.gen_doc(rng, pool=pool,
                                 main_pool=pool + ['utf-8'])
            obs.count('case:wide_codec_pool')
        else:
            doc = recipe.gen_doc(rng)
        check_case(doc, obs)
        if k < 2 and ctx.index == 0:
            obs.sample({'recipe': doc})


def replay(case, obs):
    check_case(case, obs, 'replay')
