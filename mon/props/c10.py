"""C10 - reader accepts exactly the legal section orders."""
import itertools

from mon.oracle import hierarchy as H
from mon.props import common

LEVEL = 'exploration'
RULE = ('files are assembled from syntactically valid section headers (the '
        '24 level/name combinations, each with minimal valid options and '
        'content) and read with the real DiffXReader; the index of the '
        'first rejected section, the error class and its line number are '
        'compared with the hierarchy relation taken from the specification. '
        'Enumerated exhaustively: (i) every sequence of ids of length <= N '
        'after the main header, (ii) every legal path up to length P '
        'extended by each of the 24 ids, (iii) each id as the first line. '
        'Distinct by construction; non-trivial = sequence has >= 2 sections.')
RULE += (
         ' Process axes (DESIGN 2.8): 2 of 16 shards run under python -O, 4 '
         'of 16 after a hostile warm-up of the library.')
FLOOR = {'quick': 10000, 'thorough': 300000}
REQUIRED_REACH = ['reader.py:']
REQUIRED_COUNTERS = ['rejected_at_oracle_index', 'fully_accepted']
ASSUMPTIONS = [
    '"..meta -> .change" is a don\'t-care: sections.rst requires >= 1 file '
    'per change, the parser state tree of section-format.rst lists the '
    'transition',
]

BODY = {'preamble': (b'x\n', 1), 'meta': (b'{}\n', 1), 'diff': (b'x\n', 1)}


def section_bytes(sid):
    name = sid.lstrip('.')
    if name == 'diffx':
        return b'#%s: encoding=utf-8, version=1.0\n' % sid.encode(), 1
    if name in BODY:
        body, nlines = BODY[name]
        return (b'#%s: length=%d\n' % (sid.encode(), len(body)) + body,
                1 + nlines)
    return b'#%s:\n' % sid.encode(), 1


def oracle(seq):
    """(index of first rejected section or None, indices where either
    verdict is tolerated)."""
    prev = None
    either = []
    for k, sid in enumerate(seq):
        v = H.verdict(prev, sid)
        if v == 'reject':
            return k, either
        if v == 'either':
            either.append(k)
        prev = sid
    return None, either


def pad_header(part, total):
    """Pad the header line of a section to ``total`` bytes (incl. LF) with
    an unknown option."""
    data, nlines = part
    eol = data.index(b'\n')
    h = data[:eol]
    need = total - (len(h) + 1)
    if b': ' in h:
        if need < 5:
            return part
        h2 = h + b', p=' + b'v' * (need - 4)
    else:
        if need < 4:
            return part
        h2 = h + b' p=' + b'v' * (need - 3)
    return h2 + data[eol:], nlines


#: options that mean something on OTHER sections, with values that would be
#: invalid there: on a container they are just options it does not use
CONTAINER_DECOR = [b'length=-1', b'length=none', b'indent=-2',
                   b'line_endings=mac', b'format=yaml', b'type=zzz',
                   b'mimetype=x/y', b'length=0', b'indent=x']


def check_seq(seq, obs, main_options_everywhere=False, pad=None,
              crlf=False, reiterate=False, blanks=None, other_eol=False,
              decorate=None):
    parts = [section_bytes(s) for s in seq]
    if decorate is not None:
        out = []
        for i, (sid, p) in enumerate(zip(seq, parts)):
            name = sid.lstrip('.')
            if name in ('change', 'file'):
                opt = CONTAINER_DECOR[(decorate + i) % len(CONTAINER_DECOR)]
                p = (p[0].replace(b':\n', b': ' + opt + b'\n', 1), p[1])
            elif name == 'diffx' and i == 0:
                opt = CONTAINER_DECOR[(decorate + i) % len(CONTAINER_DECOR)]
                p = (p[0].replace(b': encoding', b': ' + opt + b', encoding',
                                  1), p[1])
            out.append(p)
        parts = out
    if pad:
        # header lines of exactly 96 / 192 / 288 bytes: a legal order must
        # stay legal wherever headers fall relative to read-ahead blocks
        parts = [pad_header(p, pad[i % len(pad)])
                 for i, p in enumerate(parts)]
    if main_options_everywhere:
        # give the first header everything a main header carries, so that a
        # wrong id cannot be rejected for a missing version
        sid = seq[0]
        name = sid.lstrip('.')
        if name in BODY:
            body, nlines = BODY[name]
            parts[0] = (b'#%s: encoding=utf-8, length=%d, version=1.0\n'
                        % (sid.encode(), len(body)) + body, 1 + nlines)
        else:
            parts[0] = (b'#%s: encoding=utf-8, version=1.0\n' % sid.encode(),
                        1)
    if crlf:
        # CRLF header lines (content keeps its own LF endings)
        parts = [(p[0].replace(b'\n', b'\r\n', 1), p[1]) for p in parts]
    if blanks:
        # blank separator lines before some headers change nothing: the
        # order is judged exactly as without them (and they are not counted
        # as logical lines)
        eol = b'\r\n' if crlf else b'\n'
        if other_eol:
            # ... also when they end in the other terminator than the
            # header lines (whitespace is whitespace)
            eol = b'\n' if crlf else b'\r\n'
        parts = [((eol * blanks[i % len(blanks)]) + p[0], p[1])
                 for i, p in enumerate(parts)]
    data = b''.join(p[0] for p in parts)
    lines = []
    n = 0
    for p in parts:
        lines.append(n)
        n += p[1]
    want_k, either = oracle(seq)
    recs, exc, _ = common.read_records(data)
    if blanks is None and not reiterate and len(seq) % 3 == 0:
        # a buffered stream (it offers peek()) whose tiny buffer makes every
        # header straddle a buffer boundary
        import io
        from mon.monitor.streams import MonitoredStream
        bs = (16, 31, 64, 96, 97)[len(data) % 5]
        ms = MonitoredStream(raw=io.BufferedReader(io.BytesIO(data),
                                                   buffer_size=bs))
        recs_b, exc_b, _ = common.read_records(data, stream=ms)
        obs.count('buffered_stream_reads')
        if [r['section'] for r in recs_b] != [r['section'] for r in recs] \
                or (exc_b is None) != (exc is None):
            obs.violation('buffered_stream_judges_order_differently',
                          {'sequence': list(seq), 'buffer_size': bs},
                          {'plain': [len(recs), repr(exc)[:100]],
                           'buffered': [len(recs_b), repr(exc_b)[:100]]})
            return
    if reiterate:
        # the same reader object iterated a second time over the rewound
        # stream must judge the order exactly as the first time
        from pydiffx.reader import DiffXReader
        import io
        fp = io.BytesIO(data)
        rd = DiffXReader(fp)
        try:
            for _ in rd:
                pass
        except Exception:
            pass
        fp.seek(0)
        recs2, exc2 = [], None
        try:
            for r in rd:
                recs2.append(common.project(r))
        except Exception as e:
            exc2 = e
        obs.count('reiterations_compared')
        if ([r['section'] for r in recs2] != [r['section'] for r in recs] or
                (exc2 is None) != (exc is None)):
            # not a verdict: no property says what a second iteration of
            # the same reader object over an externally rewound stream does
            # (a reader with a push-back buffer legitimately cannot support
            # it)
            obs.count('second_iteration_differs(diagnostic)')
    case = {'sequence': list(seq), 'pad': list(pad) if pad else None,
            'crlf': crlf, 'reiterate': reiterate,
            'blanks': list(blanks) if blanks else None,
            'other_eol': other_eol, 'decorate': decorate,
            'main_options_everywhere': main_options_everywhere}
    got_ids = [r['section'] for r in recs]
    if exc is not None and not common.is_parse_error(exc):
        obs.violation('non_parse_exception:%s' % common.exc_mechanism(exc),
                      case, repr(exc))
        return
    got_k = len(recs) if exc is not None else None
    if got_ids != list(seq[:len(recs)]):
        obs.violation('records_do_not_match_headers', case, got_ids)
        return
    if exc is None and len(recs) != len(seq):
        obs.violation('reader_stopped_silently', case, got_ids)
        return
    if got_k != want_k:
        if got_k is not None and got_k in either:
            obs.count('tolerance:dont_care_transition_rejected')
        else:
            if want_k is None or (got_k is not None and got_k < want_k):
                pair = (seq[got_k - 1] if got_k else 'start', seq[got_k])
                obs.violation('rejects_legal_transition:%s->%s' % pair, case,
                              {'got_index': got_k, 'want_index': want_k,
                               'error': repr(exc)})
            else:
                pair = (seq[want_k - 1] if want_k else 'start', seq[want_k])
                kind = ('accepts_illegal_id' if seq[want_k] in H.ILLEGAL_IDS
                        else 'accepts_illegal_transition')
                obs.violation('%s:%s->%s' % ((kind,) + pair), case,
                              {'got_index': got_k, 'want_index': want_k})
            return
    if either and (got_k is None or got_k > either[0]):
        obs.count('tolerance:dont_care_transition_accepted')
    if exc is not None:
        obs.count('rejected_at_oracle_index')
        if not (0 <= exc.linenum <= n):
            obs.violation('error_line_outside_input', case,
                          {'linenum': exc.linenum, 'lines': n})
        elif exc.linenum != lines[got_k]:
            # C10 does not say which line a rejected order is reported on
            obs.count('error_line_not_offending_header(diagnostic)')
        want = 'Error on line %d' % (exc.linenum + 1)
        if not str(exc).startswith(want):
            obs.violation('error_message_line_mismatch', case, str(exc))
    else:
        obs.count('fully_accepted')
    if pad:
        recs = [dict(r, options={k: v for k, v in r['options'].items()
                                 if k != 'p'}) for r in recs]
    for r, ln, sid in zip(recs, lines, seq):
        if r['line'] != ln or r['level'] != len(sid) - len(sid.lstrip('.')):
            obs.violation('record_line_or_level', case, r)
            break
    for a, b in zip(got_ids, got_ids[1:]):
        obs.seen('accepted_transitions', '%s->%s' % (a, b))


def legal_paths(maxlen):
    out = []

    def rec(path):
        out.append(tuple(path))
        if len(path) >= maxlen:
            return
        for n in H.legal_successors(path[-1]):
            rec(path + [n])
    rec(['diffx'])
    return out


def run(ctx):
    obs = ctx.obs
    i = 0
    n = 0
    N = ctx.pick(3, 4)
    for ln in range(0, N + 1):
        for tail in itertools.product(H.ALL_IDS, repeat=ln):
            i += 1
            if ctx.mine(i):
                check_seq(('diffx',) + tail, obs)
                n += 1
    P = ctx.pick(10, 13)
    paths = legal_paths(P)
    for p in paths:
        for ext in H.ALL_IDS:
            i += 1
            if ctx.mine(i):
                check_seq(p + (ext,), obs)
                n += 1
                if i % 16 == 0:
                    pads = [(96, 192, 288), (95, 97), (192,), (97, 193),
                            (96, 98), (94, 95, 96, 97, 98)][i // 16 % 6]
                    check_seq(p + (ext,), obs, pad=pads)
                    check_seq(p + (ext,), obs, pad=pads, crlf=True)
                    n += 2
                if i % 16 == 8:
                    check_seq(p + (ext,), obs, crlf=True)
                    check_seq(p + (ext,), obs, reiterate=True)
                    n += 2
                if i % 8 == 4:
                    bl = [(1,), (0, 1), (0, 0, 2), (1, 0), (3, 1, 0, 0, 1)][
                        i // 8 % 5]
                    check_seq(p + (ext,), obs, blanks=bl)
                    check_seq(p + (ext,), obs, blanks=bl, crlf=True)
                    check_seq(p + (ext,), obs, blanks=bl, other_eol=True)
                    check_seq(p + (ext,), obs, blanks=bl, crlf=True,
                              other_eol=True)
                    n += 4
                if i % 8 == 2:
                    check_seq(p + (ext,), obs, decorate=i // 8)
                    n += 1
    for first in H.ALL_IDS:
        for second in ('.change', '.meta', 'diffx'):
            i += 1
            if ctx.mine(i):
                check_seq((first, second), obs)
                check_seq((first, second), obs, main_options_everywhere=True)
                check_seq((first, second, '..file', '...meta'), obs,
                          main_options_everywhere=True)
                check_seq((first, second), obs, main_options_everywhere=True,
                          blanks=(1, 1))
                check_seq((first, second), obs, blanks=(0, 1))
                n += 5
    obs.case(None, nontrivial=False, n=n)
    obs.distinct_by_construction(n)
    obs.exhaustive = True
    if ctx.index == 0:
        obs.count('id_sequence_max_len', N)
        obs.count('legal_path_max_len', P)
        obs.count('legal_paths', len(paths))
        obs.sample({'sequence': ['diffx', '.change', '..file', '...meta',
                                 '.change'], 'verdict': 'all accepted'})
        obs.sample({'sequence': ['diffx', '.change', '.change'],
                    'verdict': 'rejected at index 2'})


def replay(case, obs):
    obs.case(None, nontrivial=False)
    check_seq(tuple(case['sequence']), obs,
              case.get('main_options_everywhere', False),
              pad=case.get('pad'), crlf=case.get('crlf', False),
              reiterate=case.get('reiterate', False),
              blanks=case.get('blanks'),
              other_eol=case.get('other_eol', False),
              decorate=case.get('decorate'))
