"""C15 - newline/BOM handling depends on the codec, not on its spelling."""
from mon.gen import codecs_cat, recipe, texts
from mon.monitor import contracts
from mon.monitor.streams import MonitoredStream
from mon.oracle import newline as nlmodel
from mon.oracle.serializer import serialize, expected_records
from mon.props import common

LEVEL = 'exploration'
RULE = ('catalogue-exhaustive (thorough; quick samples 16 spellings of the '
        'non-BOM codecs): every text codec of the catalogue (UTF-8 / '
        '-sig, UTF-16/32 with BOM / LE / BE, Latin, Windows, EBCDIC, CJK '
        'multibyte and every other codec the interpreter registers an alias '
        'for; kept only if it passes a statelessness probe incl. non-ASCII '
        'characters) x every '
        'spelling Python resolves to it (registered aliases, case and '
        'hyphen / underscore variants; must match the option-value grammar '
        'and not be numeric) x {unix, dos}: (1) get_newline_for_type and '
        'guess_line_endings on the real functions vs the BOM-free newline '
        'model encode(nl) minus encode(""); (2) a document using the '
        'spelling on the main header, a change, and on preamble (indented) / '
        'meta / diff sections is written with the real writer and must equal '
        'the spec serializer byte for byte, (3) read back with the real '
        'reader it must give the written text (+ final newline). Texts '
        'include U+FEFF-leading text for Unicode codecs and no-final-newline '
        'text (forces the appended newline). Non-trivial = spelling differs '
        'from the canonical name or codec emits a BOM; distinct = (spelling, '
        'line endings, text).')
RULE += (
         ' Also: codec names that fail to resolve on first use and are '
         'provided by a codecs.register search function afterwards, and '
         'aliases added to encodings.aliases after pydiffx was imported. '
         'Process axes (DESIGN 2.8): 2 of 16 shards run under python -O, 4 '
         'of 16 after a hostile warm-up of the library.')
FLOOR = {'quick': 3000, 'thorough': 30000}
REQUIRED_REACH = ['utils/text.py:']
REQUIRED_COUNTERS = ['spellings', 'newline_helper_checks',
                     'roundtrips_checked', 'bom_emitting_spellings']
ASSUMPTIONS = [
    'a codec is in the quantifier when enc(a+b) == enc(a) + enc(b) minus '
    'signature on a probe set (stateless) and it is a text encoding',
    'purely numeric spellings (e.g. "037", "1252") and Python-int spellings '
    'are excluded: a DiffX reader must report them as integers',
]

BASE_TEXTS = ['one line', 'two\nlines\n', 'dos\r\nlines\r\n', 'no final\nnl',
              ' lead\n', 'x']
UNI_TEXTS_EXTRA = ['\u3000\u0a20x\n\u0a85\u2000y\n', '\u4e00\u0a0a \r\n\u0a85\u3000\r\n']
UNI_TEXTS = ['\ufeffbom first\n', '\u00e9\n', '\u00e9', '\u0a0d\n\u0a00',
             'first\n\ufeffbom starts second line\n',
             'dos\r\n\ufeffbom starts second line\r\n\ufeff\r\n']


def texts_for(codec):
    out = list(BASE_TEXTS)
    for t in UNI_TEXTS + UNI_TEXTS_EXTRA:
        if codecs_cat.encodable(t, codec):
            out.append(t)
    return [texts.restrict(t, codec) for t in out]


def helper_checks(spelling, canon, obs):
    import pydiffx.utils.text as text
    for kind in ('unix', 'dos'):
        want = nlmodel.newline_bytes(kind, canon)
        obs.count('newline_helper_checks')
        try:
            got = text.get_newline_for_type(kind, spelling)
        except Exception as e:
            obs.violation('get_newline_for_type_raised:%s'
                          % type(e).__name__,
                          {'spelling': spelling, 'kind': kind}, repr(e))
            continue
        if got != want:
            obs.violation('newline_carries_bom_or_wrong_bytes:'
                          'get_newline_for_type',
                          {'spelling': spelling, 'kind': kind},
                          {'got': got, 'want': want, 'codec': canon})
        # guess on encoded data
        sig = ''.encode(canon)
        for sample, k in (('a\nb\n', 'unix'), ('a\r\nb\r\n', 'dos'),
                          ('ab', 'unix')):
            data = sample.encode(canon)
            obs.count('newline_helper_checks')
            try:
                gk, gnl = text.guess_line_endings(data, spelling)
            except Exception as e:
                obs.violation('guess_line_endings_raised:%s'
                              % type(e).__name__,
                              {'spelling': spelling}, repr(e))
                continue
            if gk != k or gnl != nlmodel.newline_bytes(k, canon):
                obs.violation('newline_carries_bom_or_wrong_bytes:'
                              'guess_line_endings',
                              {'spelling': spelling, 'sample': sample},
                              {'got': [gk, gnl], 'want': [
                                  k, nlmodel.newline_bytes(k, canon)]})


def doc_for(spelling, le, t, where):
    pre = {'text': t, 'encoding': spelling if where == 'own' else None,
           'indent': 4, 'line_endings': le, 'mimetype': None,
           'explicit': True}
    meta = {'obj': {'k': t}, 'encoding': spelling if where == 'own' else None}
    diff = {'data': t.encode(spelling), 'encoding': spelling,
            'line_endings': le, 'type': None}
    ch = {'encoding': spelling if where == 'change' else None,
          'preamble': pre, 'meta': dict(meta),
          'files': [{'encoding': None, 'meta': dict(meta), 'diff': diff}]}
    if le is not None:
        # sections that follow each other with the SAME explicit
        # line_endings but different effective codecs (own spelling vs
        # inherited): the change's meta inherits, the file's meta declares,
        # the second file's diff has no encoding at all
        ch['meta'] = {'obj': {'k': t}, 'encoding': None, 'line_endings': le}
        ch['files'][0]['meta'] = {'obj': {'k': t}, 'encoding': spelling,
                                  'line_endings': le}
        ch['files'].append({
            'encoding': None,
            'meta': {'obj': {'k': 2}, 'encoding': spelling,
                     'line_endings': le},
            'diff': {'data': b'-a\n+b\n' if le == 'unix'
                     else b'-a\r\n+b\r\n',
                     'encoding': None, 'line_endings': le, 'type': None}})
    doc = {'encoding': spelling if where == 'main' else 'utf-8',
           'changes': [ch]}
    if where != 'main':
        # content that inherits the MAIN codec comes first, so newline bytes
        # of one codec are in play before the other codec's container opens
        doc['preamble'] = {'text': 'main\npreamble', 'encoding': None,
                           'indent': 2, 'line_endings': le, 'mimetype': None,
                           'explicit': True}
        doc['meta'] = {'obj': {'main': 1}, 'encoding': None}
        # and a second change back in the main codec afterwards
        doc['changes'].append({'encoding': None, 'preamble': {
            'text': 'after\n', 'encoding': None, 'indent': 4,
            'line_endings': le, 'mimetype': None, 'explicit': True},
            'files': [{'encoding': None,
                       'meta': {'obj': {'k': 'v'}, 'encoding': None}}]})
    return doc


def check_doc(doc, obs, case):
    want, layout = serialize(doc)
    stream = MonitoredStream()
    try:
        recipe.run_writer(recipe.writer_calls(doc), stream)
    except Exception as e:
        obs.violation('writer_raised:%s' % common.exc_mechanism(e), case,
                      repr(e)[:200])
        return
    data = stream.getvalue()
    obs.count('roundtrips_checked')
    same = common.bytes_equivalent(data, want, layout)[0]
    if not same:
        i = next((j for j in range(min(len(data), len(want)))
                  if data[j] != want[j]), min(len(data), len(want)))
        sec = [s for s in layout if s['hoff'] <= i][-1]
        obs.violation('writer_bytes_depend_on_spelling:%s' % sec['kind'],
                      case, {'offset': i, 'got': data[i - 8:i + 24],
                             'want': want[i - 8:i + 24]})
    got, exc, _ = common.read_records(data)
    expected = expected_records(layout)
    if exc is not None:
        at = expected[len(got)]['section'] if len(got) < len(expected) \
            else 'end'
        obs.violation('reader_rejects_own_output:%s:in:%s' % (
            type(exc).__name__, at.lstrip('.')), case, repr(exc)[:200])
        return
    d = common.diff_records_tolerant(expected, got, data, want, layout)
    if d is not None and same:
        obs.violation('reader_misreads:%s' % d[0], case, d[1])
    elif d is not None:
        obs.count('reader_diff_follows_writer_diff')
    # a text diff in the spelled codec is analysed whatever the spelling
    if same and d is None:
        sp = case['spelling']
        le = case.get('line_endings')
        try:
            from pydiffx.dom import DiffX
            t = DiffX.from_bytes(data)
            nl = '\r\n' if le == 'dos' else '\n'
            hunk = nl.join(['--- a', '+++ b', '@@ -1,2 +1,2 @@', ' c',
                            '-old', '+new', ''])
            fs = t.changes[0].add_file(meta={'path': 'x'},
                                       diff=hunk.encode(sp),
                                       diff_encoding=sp)
            if le:
                fs.diff_line_endings = le
            fs.generate_stats()
            st = fs.meta.get('stats', {})
            obs.count('stats_on_spelled_codec')
            if (st.get('insertions'), st.get('deletions')) != (1, 1):
                obs.violation('statistics_depend_on_codec_or_spelling', case,
                              {'stats': st})
        except Exception as e:
            obs.violation('statistics_raised:%s' % common.exc_mechanism(e),
                          case, repr(e)[:200])


# ------------------------------------------------------------ late codecs
# Codecs and aliases that become known to the interpreter only after pydiffx
# was imported (a plug-in registering a search function, an application
# adding to encodings.aliases), some of them after a first use that failed
# because the name did not resolve yet.
LATE_ALIASES = {'verifalias16': 'utf_16', 'verifalias32': 'utf_32',
                'verifalias8sig': 'utf_8_sig', 'verifalias16be': 'utf_16_be'}
_late = {'done': False}


def _norm(name):
    return name.lower().replace('-', '').replace('_', '').replace(' ', '')


def ensure_late_codecs(obs=None):
    """Returns {late name: canonical codec}."""
    import codecs
    import io
    import encodings.aliases
    from mon.gen import warmup
    table = dict(warmup.LATE_CODECS)
    out = dict(table)
    out.update({k: v.replace('_', '-') for k, v in LATE_ALIASES.items()})
    if _late['done']:
        return out
    import pydiffx.utils.text as text
    from pydiffx.writer import DiffXWriter
    # 1. first use while the names do not resolve: every outcome is fine
    for name in table:
        for fn, args in ((text.strip_bom, (b'\xff\xfe\n\x00', name)),
                         (text.get_newline_for_type, ('unix', name)),
                         (text.get_newline_for_type, ('dos', name)),
                         (text.guess_line_endings, ('a\nb\n', name)),
                         (text.guess_line_endings, (b'a\r\nb\r\n', name))):
            try:
                fn(*args)
            except Exception:
                pass
        try:
            w = DiffXWriter(io.BytesIO(), encoding='utf-8')
            w.new_change()
            w.new_file()
            w.write_meta({'k': 'v'})
            w.write_diff(b'--- a\n+++ b\n', encoding=name)
        except Exception:
            pass
        try:
            common.read_records(b'#diffx: encoding=%s, version=1.0\n'
                                b'#.preamble: length=2\na\n' % name.encode())
        except Exception:
            pass
    # 2. the plug-in arrives
    keyed = {_norm(k): v for k, v in table.items()}

    def search(name):
        target = keyed.get(_norm(name))
        if target is None:
            return None
        return codecs.lookup(target)
    codecs.register(search)
    # 3. aliases added to the interpreter's table (never looked up before)
    encodings.aliases.aliases.update(LATE_ALIASES)
    _late['done'] = True
    if obs is not None:
        obs.count('late_codecs_registered', len(out))
    return out


def late_codec_pass(ctx):
    obs = ctx.obs
    late = ensure_late_codecs(obs)
    items = sorted(late.items())
    for i, (name, canon) in enumerate(items):
        try:
            if ''.encode(name) != ''.encode(canon) or \
                    'a\n'.encode(name) != 'a\n'.encode(canon):
                raise LookupError(name)
        except LookupError:
            # this interpreter does not resolve the late name: nothing to
            # observe (counted; never a verdict)
            obs.count('late_codec_not_resolvable')
            continue
        for sp in (name, name.upper()):
            obs.count('late_codec_spellings')
            helper_checks(sp, canon, obs)
            wheres = ('own', 'change', 'main')
            for j, t in enumerate(texts_for(canon)):
                for le in (None, 'unix', 'dos'):
                    if (i + j + ctx.index) % 4 and ctx.quick:
                        continue
                    where = wheres[(i + j) % 3]
                    case = {'spelling': sp, 'line_endings': le, 'text': t,
                            'where': where, 'late': True}
                    obs.case((sp, le, t, where, 'late'), nontrivial=True)
                    check_doc(doc_for(sp, le, t, where), obs, case)


def run(ctx):
    obs = ctx.obs
    rng = ctx.rng
    late_codec_pass(ctx)
    cat = codecs_cat.catalogue()
    items = []
    import random as _random
    pick = _random.Random(ctx.seed)      # same sample in every shard
    for canon in sorted(cat):
        sps = codecs_cat.spellings(canon)
        if ctx.quick and not ''.encode(canon) and len(sps) > 16:
            # quick tier: all spellings of the BOM-emitting codecs, the
            # canonical name + 15 sampled spellings of every other codec
            sps = sps[:1] + pick.sample(sps[1:], 15)
        for sp in sps:
            items.append((canon, sp))
    if ctx.index == 0:
        obs.count('codecs', len(cat))
        obs.notes.append('dropped codecs: %r' % (codecs_cat.dropped(),))
    for i, (canon, sp) in enumerate(items):
        if not ctx.mine(i):
            continue
        obs.count('spellings')
        obs.seen('families', cat[canon])
        bom = bool(''.encode(canon))
        if bom:
            obs.count('bom_emitting_spellings')
        helper_checks(sp, canon, obs)
        tl = texts_for(canon)
        wheres = ('own', 'change', 'main')
        for j, t in enumerate(tl):
            for le in (None, 'unix', 'dos'):
                if ctx.quick and (i + j) % 2 and le is None:
                    continue
                where = wheres[(i + j) % 3]
                case = {'spelling': sp, 'line_endings': le, 'text': t,
                        'where': where}
                nontrivial = bom or sp != canon
                obs.case((sp, le, t, where), nontrivial=nontrivial)
                check_doc(doc_for(sp, le, t, where), obs, case)
        if not ctx.quick:
            for _ in range(40):
                t = texts.text(rng, canon)
                le = rng.choice([None, 'unix', 'dos'])
                where = rng.choice(wheres)
                obs.case((sp, le, t, where), nontrivial=bom or sp != canon)
                check_doc(doc_for(sp, le, t, where), obs,
                          {'spelling': sp, 'line_endings': le, 'text': t,
                           'where': where})
    if ctx.index == 0:
        obs.sample({'spelling': 'UTF-16', 'line_endings': 'dos',
                    'text': 'no final\nnl', 'where': 'change'})
        obs.sample({'spellings_of_utf_16': codecs_cat.spellings('utf-16')})


def replay(case, obs):
    obs.case(None, nontrivial=False)
    if case.get('kind') == 'contract':
        case = {'spelling': case['witness']['encoding']}
    sp = case['spelling']
    if case.get('late'):
        canon = {_norm(k): v for k, v in
                 ensure_late_codecs().items()}[_norm(sp)]
    else:
        canon = codecs_cat.canonical(sp)
    if 'text' in case:
        check_doc(doc_for(sp, case.get('line_endings'), case['text'],
                          case.get('where', 'own')), obs, case)
    else:
        helper_checks(sp, canon, obs)
