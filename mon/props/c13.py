"""C13 - generated statistics are exact, additive, idempotent, non-destructive.
"""
import copy
import logging

from mon.gen import hunks, texts
from mon.oracle import treesnap
from mon.props import common

LEVEL = 'exploration'
RULE = ('trees of 0-4 changes x 0-5 files are built through the public API; '
        'each file diff is assembled from generated hunks with known '
        'insert/delete counts, file-header lines ("---"/"+++") and garbage '
        'between hunks, in unix or dos line endings, with explicit or '
        'implicit line_endings, encoded as None / utf-8 / latin-1 / utf-16 / '
        'utf-32 / cp037, or is binary / empty / absent / unparsable '
        '(truncated hunk); files, changes and the root may carry '
        'pre-existing stats dictionaries with custom keys and other '
        'metadata. generate_stats() is called on the root (sometimes on a '
        'change or file first). Oracle: constructive ground truth per file, '
        'sums of what files report per change and of changes at the top, '
        'snapshot equality of everything that is not a generated stats key, '
        'second call changes nothing. Non-trivial = >= 1 analysable diff '
        'with >= 1 change line; distinct = fingerprint of the tree spec.')
RULE += (
         ' Also: pre-existing statistics with float figures (exact binary '
         'fractions). Process axes (DESIGN 2.8): 2 of 16 shards run under '
         'python -O, 4 of 16 after a hostile warm-up of the library.')
FLOOR = {'quick': 3000, 'thorough': 80000}
REQUIRED_REACH = ['generate_stats']
REQUIRED_COUNTERS = ['files_analysable', 'files_not_analysable',
                     'idempotence_checked', 'diff_encoding:utf-16',
                     'diff_encoding:cp037', 'diff_encoding:none']
ASSUMPTIONS = [
    'pre-existing stats values are dictionaries with numeric figures '
    '(integers, or floats that are exact binary fractions)',
    'with implicit line endings the first line of the diff decides (spec)',
]

STAT_KEYS = ('insertions', 'deletions', 'lines changed')
ENCODINGS = [None, None, 'utf-8', 'latin-1', 'utf-16', 'utf-32', 'cp037',
             'utf-16-be']


def gen_file_spec(rng):
    kind = rng.choices(['text', 'binary', 'empty', 'absent', 'unparsable',
                        'huge_number'], [70, 8, 5, 8, 9, 2])[0]
    spec = {'kind': kind, 'meta': {'path': 'f%d' % rng.randrange(1000)},
            'ins': 0, 'dels': 0}
    if rng.random() < 0.3:
        spec['meta']['stats'] = gen_prestats(rng)
    if rng.random() < 0.3:
        spec['meta']['custom'] = {'k': [1, 2, {'x': None}]}
    if kind == 'absent':
        return spec
    if kind == 'empty':
        spec['diff'] = b''
        return spec
    lines, expected, spans = hunks.gen_diff(rng, True, max_hunks=4)
    head = []
    if rng.random() < 0.6:
        head = [b'--- a/file\t2021-07-02', b'+++ b/file\t2021-07-02']
    lines = head + lines
    if kind == 'unparsable':
        r = rng.random()
        if r < 0.5:
            lines = lines + [b'@@ -1,3 +1,3 @@', b' a', b'-b']
        else:
            # a complete hunk but for one line that is neither context,
            # insert, delete nor THE marker (look-alikes included)
            bad = rng.choice([b'\\ Kein Zeilenumbruch am Dateiende.',
                              b'\\ No newline at end of property', b'\\ ',
                              b'\\ No newline at end of file.', b'?',
                              b'\\', b'x'])
            lines = lines + [b'@@ -1,3 +1,3 @@', b' a', b'-b', bad, b'+B',
                             b' c']
    if kind == 'huge_number':
        # a hunk header no integer conversion survives: not analysable
        lines = lines + [b'@@ -1 +' + b'9' * 4400 + b' @@', b'-a', b'+b']
    if not lines:
        lines = [b'only garbage']
    nl = rng.choice(['unix', 'unix', 'dos'])
    enc = rng.choice(ENCODINGS)
    explicit = rng.random() < 0.5
    if not explicit:
        # the first line decides: it must not itself end in a lone CR
        if lines[0].endswith(b'\r'):
            lines[0] = lines[0].rstrip(b'\r') + b'x'
    if nl == 'dos':
        # payload newlines would be line separators of the other kind
        lines = [l for l in lines]
    sep = b'\n' if nl == 'unix' else b'\r\n'
    if nl == 'unix' and explicit is False:
        pass
    raw = sep.join(lines) + (sep if rng.random() < 0.8 else b'')
    if nl == 'unix':
        # a CR right before a separator would read as CRLF under dos rules
        pass
    if not raw:
        spec['kind'] = 'empty'
        spec['diff'] = b''
        return spec
    text = raw.decode('latin-1')
    if enc is not None and enc != 'latin-1' and enc != 'cp037' and \
            rng.random() < 0.3:
        # a first (garbage) line whose characters spell LF / CR units across
        # character boundaries in UTF-16/32
        first = 'Index: \u0a85\u3000 \u3000\u0a20 \u0d0a\u0a0d \u4e00\u0a85'
        text = first + sep.decode() + text
        if not explicit:
            # with undeclared line endings such bytes make the first-line
            # rule ambiguous for anything that has to guess on the ENCODED
            # bytes (the writer, when the tree is serialised): such a tree
            # is only analysed directly, never after a write/parse cycle
            spec['no_roundtrip'] = True
    if enc is not None:
        raw = text.encode(enc)
    spec['diff'] = raw
    spec['encoding'] = enc
    spec['line_endings'] = nl if explicit else None
    spec['type'] = 'binary' if kind == 'binary' else rng.choice([None,
                                                                 'text'])
    if kind == 'text':
        spec['ins'] = expected['total_inserts']
        spec['dels'] = expected['total_deletes']
    spec['nl'] = nl
    # containers may declare any encoding: statistics never read a diff
    # through it
    if rng.random() < 0.3:
        spec['file_encoding'] = rng.choice(['utf-16', 'utf-32', 'cp037',
                                            'latin-1', 'utf-16-be'])
    return spec


def gen_prestats(rng):
    st = {}
    # figures as JSON carries them: integers, but also 4.0 / 1e1 / 2.5
    # (binary fractions only, so that no summation order can matter)
    floaty = rng.random() < 0.2
    for k in STAT_KEYS + ('files', 'changes'):
        if rng.random() < 0.5:
            st[k] = rng.randint(0, 50)
            if floaty and rng.random() < 0.6:
                st[k] = float(st[k]) + rng.choice([0.0, 0.0, 0.5, 0.25])
    if rng.random() < 0.6:
        st['custom figure'] = rng.randint(0, 9)
    if rng.random() < 0.2:
        st['nested'] = {'a': [1]}
    return st


def gen_tree_spec(rng):
    spec = {'meta': {}, 'changes': []}
    if rng.random() < 0.4:
        spec['meta'] = {'title': 'x'}
    if rng.random() < 0.3:
        spec['meta']['stats'] = gen_prestats(rng)
    for _ in range(rng.randint(0, 4)):
        ch = {'meta': {}, 'files': []}
        if rng.random() < 0.4:
            ch['meta'] = {'author': 'a'}
        if rng.random() < 0.3:
            ch['meta']['stats'] = gen_prestats(rng)
        for _ in range(rng.randint(0, 5)):
            ch['files'].append(gen_file_spec(rng))
        spec['changes'].append(ch)
    return spec


def build(spec):
    from pydiffx.dom import DiffX
    d = DiffX()
    if spec['meta']:
        d.meta = copy.deepcopy(spec['meta'])
    files = []
    for ch in spec['changes']:
        c = d.add_change()
        if ch['meta']:
            c.meta = copy.deepcopy(ch['meta'])
        for f in ch['files']:
            kw = {'meta': copy.deepcopy(f['meta'])}
            if 'diff' in f:
                kw['diff'] = f['diff']
            if f.get('encoding'):
                kw['diff_encoding'] = f['encoding']
            if f.get('line_endings'):
                kw['diff_line_endings'] = f['line_endings']
            if f.get('type'):
                kw['diff_type'] = f['type']
            if f.get('file_encoding'):
                kw['encoding'] = f['file_encoding']
            files.append((c.add_file(**kw), f))
    return d, files


def expected_meta(spec):
    """(root_meta, [change_meta], [[file_meta]]) after generate_stats."""
    root = copy.deepcopy(spec['meta'])
    tot = {'changes': len(spec['changes']), 'files': 0, 'insertions': 0,
           'deletions': 0, 'lines changed': 0}
    cms = []
    fms = []
    for ch in spec['changes']:
        cm = copy.deepcopy(ch['meta'])
        cst = {'files': len(ch['files']), 'insertions': 0, 'deletions': 0,
               'lines changed': 0}
        row = []
        for f in ch['files']:
            fm = copy.deepcopy(f['meta'])
            if f['kind'] == 'text':
                st = {'insertions': f['ins'], 'deletions': f['dels'],
                      'lines changed': f['ins'] + f['dels']}
                if 'stats' in fm:
                    fm['stats'].update(st)
                else:
                    fm['stats'] = st
            rep = fm.get('stats', {})
            for k in STAT_KEYS:
                cst[k] += rep.get(k, 0)
            row.append(fm)
        if 'stats' in cm:
            cm['stats'].update(cst)
        else:
            cm['stats'] = cst
        for k in ('files',) + STAT_KEYS:
            tot[k] += cm['stats'][k]
        cms.append(cm)
        fms.append(row)
    if 'stats' in root:
        root['stats'].update(tot)
    else:
        root['stats'] = tot
    return root, cms, fms


class _Capture(logging.Handler):
    def __init__(self):
        logging.Handler.__init__(self)
        self.n = 0

    def emit(self, record):
        self.n += 1


def check_case(spec, obs, pre_calls=0):
    case = {'spec': spec, 'pre_calls': pre_calls}
    d, files = build(spec)
    if pre_calls == 3 and any(f.get('no_roundtrip') for ch in spec['changes']
                              for f in ch['files']):
        pre_calls = 0
    if pre_calls == 3:
        # the same tree after a serialise -> parse round trip (what a tool
        # that post-processes an existing DiffX file works on)
        from pydiffx.dom import DiffX
        try:
            d = DiffX.from_bytes(d.to_bytes())
            files = [(d.changes[ci].files[fi], f)
                     for ci, ch in enumerate(spec['changes'])
                     for fi, f in enumerate(ch['files'])]
            obs.count('parsed_trees')
        except Exception:
            obs.count('roundtrip_not_possible(constructed tree used)')
            d, files = build(spec)
    before = treesnap.snapshot(d)
    cap = _Capture()
    lg = logging.getLogger('pydiffx.dom.objects')
    lg.addHandler(cap)
    lg.propagate = False
    try:
        try:
            if pre_calls == 1 and d.changes:
                d.changes[0].generate_stats()
            elif pre_calls == 2 and files:
                files[0][0].generate_stats()
            d.generate_stats()
        except Exception as e:
            obs.case(None, nontrivial=False)
            obs.violation('generate_stats_raised:%s'
                          % common.exc_mechanism(e), case, repr(e)[:200])
            return
    finally:
        lg.removeHandler(cap)
    obs.count('logged_errors', cap.n)
    nontrivial = any(f['kind'] == 'text' and (f['ins'] or f['dels'])
                     for ch in spec['changes'] for f in ch['files'])
    obs.case(spec, nontrivial=nontrivial)
    root, cms, fms = expected_meta(spec)
    # per file
    for ci, ch in enumerate(spec['changes']):
        for fi, f in enumerate(ch['files']):
            live = d.changes[ci].files[fi]
            analysable = f['kind'] == 'text'
            if f.get('file_encoding'):
                obs.count('files_with_container_encoding')
            obs.count('files_analysable' if analysable
                      else 'files_not_analysable')
            obs.count('file_kind:%s' % f['kind'])
            if 'diff' in f and f['kind'] not in ('empty',):
                obs.count('diff_encoding:%s' % (f.get('encoding') or 'none'))
            if not common.strict_equal(live.meta, fms[ci][fi]):
                got = live.meta.get('stats')
                want = fms[ci][fi].get('stats')
                if analysable:
                    enc = f.get('encoding')
                    wide = enc in ('utf-16', 'utf-32', 'cp037', 'utf-16-be')
                    mech = 'file_stats_wrong:%s%s' % (
                        'non_ascii_compatible_encoding' if wide else
                        'ascii_compatible_encoding',
                        '' if f.get('line_endings') else ':implicit_nl')
                else:
                    mech = 'unanalysable_file_touched:%s' % f['kind']
                obs.violation(mech, case, {'change': ci, 'file': fi,
                                           'got': got, 'want': want,
                                           'encoding': f.get('encoding'),
                                           'nl': f.get('nl')})
                return
        live_c = d.changes[ci]
        if not common.strict_equal(live_c.meta, cms[ci]):
            obs.violation('change_stats_wrong', case,
                          {'change': ci, 'got': live_c.meta.get('stats'),
                           'want': cms[ci].get('stats')})
            return
    if not common.strict_equal(d.meta, root):
        obs.violation('root_stats_wrong', case,
                      {'got': d.meta.get('stats'), 'want': root.get('stats')})
        return
    # nothing else changed: compare snapshots with all metadata blanked
    after = treesnap.snapshot(d)
    if _blank_meta(before) != _blank_meta(after):
        obs.violation('generate_stats_changed_non_metadata', case)
        return
    # idempotence
    d.generate_stats()
    obs.count('idempotence_checked')
    again = treesnap.snapshot(d)
    if not treesnap.equal(after, again):
        dd = treesnap.first_diff(after, again)
        obs.violation('second_call_changes_tree', case,
                      {'path': dd[0], 'what': dd[1]})


def _blank_meta(snap):
    s = dict(snap)
    if s.get('cls') == 'DiffXMetaSection':
        s['content'] = None
    if 'sub' in s:
        s['sub'] = [_blank_meta(x) for x in s['sub']]
    return s


def run(ctx):
    obs = ctx.obs
    rng = ctx.rng
    n = ctx.share(ctx.pick(8000, 200000))
    for k in range(n):
        spec = gen_tree_spec(rng)
        check_case(spec, obs, pre_calls=rng.choice([0, 0, 0, 1, 2, 3, 3]))
        if k < 1 and ctx.index == 0:
            obs.sample({'spec': spec})


def replay(case, obs):
    check_case(case['spec'], obs, case.get('pre_calls', 0))
