"""C11 - header lines are accepted iff they match the spec header grammar."""
import itertools

from mon.oracle import header_grammar as hg
from mon.props import common

LEVEL = 'exploration'
RULE = ('candidate header lines are placed as the 2nd line after a valid '
        '"#diffx: version=1.0" line and read with the real DiffXReader; the '
        'verdict (accepted with which options / rejected with '
        'DiffXParseError on that line / anything else) is compared with a '
        'hand-written recogniser of the spec grammar. Enumerated: (1) '
        '"#.change:" + every tail over the 16-symbol alphabet '
        '{a Z 7 _ - . / = , space tab # : + 0xFF %} up to length L; (2) every '
        'head over {# . : space change Change x} up to 6 symbols; (3) every '
        'option list of 1-3 pairs built from token sets for key / "=" / '
        'value / separator; (4) long valid option lists with one byte '
        'substituted at every position by every alphabet symbol; (5) CR '
        'variants under LF and CRLF files. Distinct by construction; '
        'non-trivial = the line starts with "#".')
RULE += (
         ' Also: (6) integer values of 1..25, 100, 640, ~4300, 5000, 10000 '
         'and 100000 digits (int or verbatim text accepted beyond the '
         'interpreter digit limit); (7) every non-ASCII code point that case'
         ' mapping, case folding, NFKC/NFKD or its digit value turns into a '
         'grammar character, in UTF-8 and Latin-1, substituted at key / '
         'value / name / punctuation positions: all must be rejected. '
         'Process axes (DESIGN 2.8): 2 of 16 shards run under python -O, 4 '
         'of 16 after a hostile warm-up of the library.')
FLOOR = {'quick': 50000, 'thorough': 500000}
REQUIRED_REACH = ['reader.py:']
REQUIRED_COUNTERS = ['oracle_accepts', 'oracle_rejects']
ASSUMPTIONS = [
    'Python-only integer spellings (e.g. 7_7) may be reported as int or '
    'str; with duplicate keys any of the given values may be reported',
    'whitespace-only lines are blank separators, not header candidates',
    'a grammatical header whose encoding option names no usable text codec '
    'may be rejected with a parse error on that line (semantic validation '
    'is not part of the grammar property)',
]

ALPHABET = [b'a', b'Z', b'7', b'_', b'-', b'.', b'/', b'=', b',', b' ',
            b'\t', b'#', b':', b'+', b'\xff', b'%']
HEAD_SYMS = [b'#', b'.', b':', b' ', b'change', b'Change', b'x']

KEYS = [b'a', b'Z9', b'a-b_c', b'7a', b'_a', b'-a', b'a+b', b'a.b', b'',
        b'a b', b'length', b'a\xff', b'%s', b'a%d', b'%(k)s']
EQS = [b'=', b' =', b'= ', b'==', b'']
VALUES = [b'v', b'7', b'-7', b'7_7', b'text/plain', b'a.b_c-d/e', b'a+b',
          b'a=b', b'', b'a b', b'a:', b'1.0', b'0x10', b'v\xff', b'007',
          b'%', b'%s', b'%d', b'100%', b'%(value)s', b'%%']
SEPS = [b', ', b',', b' , ', b',  ', b' ', b'; ']


def check_line(line, obs, file_nl=b'\n', follow=b'', lead=b''):
    data = lead + b'#diffx: version=1.0' + file_nl + line + file_nl + follow
    if line.strip() == b'':
        obs.count('tolerance:blank_line')
        return
    parsed = hg.parse_header(line)
    accept = parsed is not None and parsed[0] == '.change'
    if accept and follow and any(k == b'encoding' for k, _ in parsed[3]):
        # what a (possibly unknown) codec does to later sections is C08's
        # business, not the header grammar's
        follow = b''
        data = lead + b'#diffx: version=1.0' + file_nl + line + file_nl
    recs, exc, _ = common.read_records(data)
    case = {'line': line, 'file_newline': file_nl, 'follow': follow,
            'lead': lead}
    if accept and exc is not None and \
            common.is_parse_error(exc) \
            and semantically_invalid(parsed[3]):
        # grammatical, but a known option carries a value the reader may
        # legitimately refuse (e.g. an unknown codec): not the grammar's
        # business, either outcome is fine
        obs.count('tolerance:semantic_rejection_of_known_option')
        return
    if accept:
        obs.count('oracle_accepts')
        pairs = parsed[3]
        if exc is not None:
            kind = ('rejected_valid_header'
                    if common.is_parse_error(exc)
                    else 'valid_header_raised:%s' % common.exc_mechanism(exc))
            obs.violation(kind, case, repr(exc))
            return
        if (len(recs) != (4 if follow else 2) or
                recs[1]['section'] != '.change'):
            obs.violation('valid_header_not_yielded', case,
                          [r['section'] for r in recs])
            return
        got = recs[1]['options']
        if not options_ok(pairs, got, obs):
            obs.violation('options_not_reported_verbatim', case,
                          {'got': got, 'want': hg.convert(pairs)})
        if recs[1]['level'] != 1 or recs[1]['line'] != 1:
            obs.violation('header_record_fields', case, recs[1])
    else:
        obs.count('oracle_rejects')
        if exc is None:
            obs.violation('accepted_invalid_header%s' % why(line, parsed),
                          case, recs[1:] if len(recs) > 1 else None)
            return
        if not common.is_parse_error(exc):
            obs.violation('invalid_header_raised:%s'
                          % common.exc_mechanism(exc), case, repr(exc))
            return
        if len(recs) != 1 or not (0 <= exc.linenum <= 3 + data.count(b'\n')):
            obs.violation('invalid_header_error_position', case,
                          {'linenum': exc.linenum, 'records': len(recs)})
        elif exc.linenum != 1 + lead.count(b'\n') * 0:
            # C11 does not say which line number the rejection carries
            obs.count('error_line_not_the_header_line(diagnostic)')


_GRAMMAR_CHARS = set('ABCDEFGHIJKLMNOPQRSTUVWXYZabcdefghijklmnopqrstuvwxyz'
                     '0123456789_-./=, :#')


def confusables():
    """Non-ASCII code points that some Unicode-aware operation (case
    mapping, case folding, compatibility normalisation, digit value) turns
    into characters of the header grammar: [(char, ascii image)]. None of
    them is in the grammar; a reader that decodes, folds or normalises
    before matching would let them through."""
    import unicodedata
    out = []
    for cp in list(range(0x80, 0x3000)) + list(range(0xFF00, 0xFFF0)) + \
            list(range(0x1D400, 0x1D800)):
        c = chr(cp)
        images = set()
        for f in (str.lower, str.upper, str.casefold,
                  lambda x: unicodedata.normalize('NFKC', x),
                  lambda x: unicodedata.normalize('NFKD', x),
                  lambda x: unicodedata.normalize('NFKC', x).casefold()):
            try:
                images.add(f(c))
            except Exception:
                pass
        d = unicodedata.digit(c, None)
        if d is not None:
            images.add(str(d))
        for im in sorted(images):
            if im and im != c and all(ch in _GRAMMAR_CHARS for ch in im):
                out.append((c, im))
                break
    return out


def confusable_lines():
    for c, im in confusables():
        encs = [c.encode('utf-8')]
        if ord(c) < 0x100:
            encs.append(c.encode('latin-1'))
        for b in encs:
            yield b'#.change: ' + b + b'=1'
            yield b'#.change: a' + b + b'=1'
            yield b'#.change: a=' + b
            yield b'#.change: a=v' + b + b', b=2'
            first = im[0]
            if first.lower() in 'change':
                i = 'change'.index(first.lower())
                yield b'#.' + b'change'[:i] + b + b'change'[i + 1:] + b': a=1'
            if first == '#':
                yield b + b'.change: a=1'
            if first == '.':
                yield b'#' + b + b'change: a=1'
            if first == ':':
                yield b'#.change' + b + b' a=1'
            if first == ' ':
                yield b'#.change:' + b + b'a=1'
                yield b'#.change: a=1,' + b + b'b=2'
            if first == '=':
                yield b'#.change: a' + b + b'1'
            if first == ',':
                yield b'#.change: a=1' + b + b' b=2'


def semantically_invalid(pairs):
    """Does a known container option hold a value that is not usable?"""
    for k, v in pairs:
        if k == b'encoding':
            try:
                if hg.is_decimal(v):
                    return True
                '\n'.encode(v.decode('ascii'))
            except (LookupError, ValueError):
                return True
    return False


def why(line, parsed):
    """Value-free class of an invalid line (mechanism suffix)."""
    if parsed is not None:
        return ':illegal_section'
    if not line.startswith(b'#.change:'):
        return ':bad_head'
    tail = line[len(b'#.change:'):]
    if tail[:1] != b' ':
        return ':no_space_after_colon'
    body = tail[1:]
    for chunk in body.split(b', '):
        if b'=' not in chunk:
            return ':pair_without_equals'
        k, v = chunk.split(b'=', 1)
        if not hg.is_key(k):
            return ':bad_key'
        if not hg.is_value(v):
            if any(c >= 0x80 for c in v):
                return ':non_ascii_value'
            return ':bad_value'
    return ':other'


def options_ok(pairs, got, obs):
    want = {}
    for k, v in pairs:
        want.setdefault(k.decode(), []).append(v)
    if set(want) != set(got):
        return False
    for k, vals in want.items():
        if len(vals) > 1:
            obs.count('tolerance:duplicate_key')
        ok = False
        for v in vals:
            s = v.decode('ascii')
            if hg.is_decimal(v) and hg.beyond_int_limit(s):
                # more digits than this interpreter converts (PEP: int max
                # str digits): the integer or the verbatim text
                obs.count('tolerance:integer_beyond_interpreter_digit_limit')
                cand = [hg.big_int(s), s]
            elif hg.is_decimal(v):
                cand = [int(s)]
            else:
                cand = [s]
                try:
                    cand.append(int(s))      # python-only int spellings
                except ValueError:
                    pass
            for c in cand:
                if type(got[k]) is type(c) and got[k] == c:
                    if len(cand) > 1 and type(c) is int:
                        obs.count('tolerance:python_int_spelling')
                    ok = True
        if not ok:
            return False
    return True


def gen_lines(ctx):
    """Yield (index, line) for the deterministic enumerations."""
    i = 0
    L = ctx.pick(4, 6)
    for n in range(0, L + 1):
        for tup in itertools.product(ALPHABET, repeat=n):
            i += 1
            yield i, 'tail', b'#.change:' + b''.join(tup)
    for n in range(1, 7):
        for tup in itertools.product(HEAD_SYMS, repeat=n):
            i += 1
            yield i, 'head', b''.join(tup)
    # token-level option lists, 1..3 pairs
    singles = [(k, e, v) for k in KEYS for e in EQS for v in VALUES]
    for k, e, v in singles:
        i += 1
        yield i, 'pair1', b'#.change: ' + k + e + v
    good = [(b'a', b'=', b'v'), (b'Z9', b'=', b'text/plain'),
            (b'a-b_c', b'=', b'-7')]
    for (k, e, v) in singles:
        for sep in SEPS:
            for g in good[:ctx.pick(1, 3)]:
                i += 1
                yield i, 'pair2', (b'#.change: ' + g[0] + g[1] + g[2] + sep +
                                   k + e + v)
                i += 1
                yield i, 'pair2', (b'#.change: ' + k + e + v + sep + g[0] +
                                   g[1] + g[2])
    for sep1 in SEPS:
        for sep2 in SEPS:
            for trail in (b'', b' ', b',', b', '):
                i += 1
                yield i, 'pair3', (b'#.change: a=v' + sep1 + b'b=7' + sep2 +
                                   b'c=x/y' + trail)
    # substitution sweep over long valid lists
    longs = [b'#.change: encoding=utf-8, length=100, line_endings=unix, '
             b'mimetype=text/plain, x-custom_9=A.b-c/d',
             b'#.change: a=' + b'v' * 300 + b', ' + b'k' * 200 + b'=1']
    for base in longs:
        for pos in range(len(base)):
            for sym in ALPHABET + [b'', b'\r', b'\x00']:
                i += 1
                yield i, 'subst', base[:pos] + sym + base[pos + 1:]


def run(ctx):
    obs = ctx.obs
    n = 0
    for i, kind, line in gen_lines(ctx):
        if not ctx.mine(i):
            continue
        check_line(line, obs)
        n += 1
        obs.count('enum:%s' % kind)
        if kind != 'tail' or i % 7 == 0:
            # a section after the candidate must not change the verdict
            check_line(line, obs, follow=b'#..file:\n#...meta: length=3\n{}\n')
            n += 1
    # block-boundary lengths: grammatical headers of 90..100, 186..196,
    # 282..292 bytes (before the line ending), as 2nd and as 3rd line, in LF
    # and CRLF files
    if ctx.index == 1 % ctx.n:
        for total in list(range(90, 101)) + list(range(186, 197)) + \
                list(range(282, 293)):
            base = b'#.change: p='
            line = base + b'v' * (total - len(base))
            for nl in (b'\n', b'\r\n'):
                check_line(line, obs, nl)
                check_line(line, obs, nl,
                           follow=b'#..file:' + nl + b'#...meta: length=3' +
                           nl + b'{}\n')
                # an invalid one of the same length must still be rejected
                check_line(line[:-1] + b'+', obs, nl)
                n += 3
                obs.count('enum:block_boundary')
    # an otherwise valid header behind leading whitespace is not a header,
    # however much whitespace it is (every count up to 3 read-ahead blocks,
    # alone and after runs of blank lines that make the total a multiple of
    # the block size)
    if ctx.index == 4 % ctx.n:
        cands = []
        for k in range(1, 300):
            cands.append(b' ' * k + b'#.change: a=b')
            if k % 7 == 0:
                cands.append(b'\t' * k + b'#.change:')
        for blanks in (1, 2, 40, 95, 96, 97, 191):
            for total in (96, 192, 288):
                if total > blanks:
                    cands.append(b'\n' * blanks + b' ' * (total - blanks) +
                                 b'#.change: a=b')
                    cands.append(b'\r\n' * (blanks // 2) +
                                 b' ' * (total - 2 * (blanks // 2)) +
                                 b'#.change:')
        for line in cands:
            check_line(line, obs)
            check_line(line, obs, follow=b'#..file:\n#...meta: length=3\n{}\n')
            n += 2
            obs.count('enum:indented_header')
    # non-ASCII look-alikes of grammar characters
    for j, line in enumerate(confusable_lines()):
        if ctx.mine(j):
            check_line(line, obs)
            n += 1
            obs.count('enum:unicode_confusables')
    # integer-valued options of every size, up to and beyond the
    # interpreter's int<->str digit limit
    if ctx.index == 3 % ctx.n:
        import sys
        lim = getattr(sys, 'get_int_max_str_digits', lambda: 4300)() or 4300
        for nd in sorted(set(list(range(1, 26)) + [100, 639, 640, 641, 1000,
                                                  lim - 1, lim, lim + 1,
                                                  5000, 10000, 100000])):
            for digits in (b'9' * nd, b'1' + b'0' * (nd - 1), b'0' * nd,
                           b'-' + b'7' * nd):
                for key in (b'id', b'length', b'x-n'):
                    line = b'#.change: ' + key + b'=' + digits
                    check_line(line, obs)
                    check_line(line + b', z=1', obs,
                               follow=b'#..file:\n#...meta: length=3\n{}\n')
                    check_line(line + b'_', obs)
                    check_line(line + b'+', obs)
                    n += 4
                    obs.count('enum:digit_runs')
    # blank separator lines in front of the main header, terminated like
    # the headers or the other way round: they are whitespace, not headers
    if ctx.index == 2 % ctx.n:
        for lead in (b'\n', b'\r\n', b'\n\n', b'\r\n\n', b' \n', b'\t\r\n'):
            for nl in (b'\n', b'\r\n'):
                for line in (b'#.change: a=b', b'#.change:', b'#.change: a=b+',
                             b'#.change'):
                    check_line(line, obs, nl, lead=lead)
                    n += 1
                    obs.count('enum:leading_blank')
    # CR variants
    if ctx.index == 0:
        for line in (b'#.change: a=b', b'#.change:', b'#.change: a=b\r',
                     b'#.change: a=b\rc', b'#.change:\r', b'#.change: \r'):
            check_line(line, obs, b'\n')
            check_line(line, obs, b'\r\n')
            n += 2
            obs.count('enum:cr')
        obs.sample({'line': b'#.change: a=v, b=7', 'verdict': 'accept'})
        obs.sample({'line': b'#.change: a=b+c', 'verdict': 'reject'})
    obs.case(None, nontrivial=False, n=n)
    obs.distinct_by_construction(n)
    obs.exhaustive = True
    obs.count('tail_max_length', ctx.pick(4, 6) if ctx.index == 0 else 0)


def replay(case, obs):
    obs.case(None, nontrivial=False)
    check_line(case['line'], obs, case.get('file_newline', b'\n'),
               case.get('follow', b''), case.get('lead', b''))
