"""C18 - object-model instances are isolated; observers do not mutate."""
import copy
import io
import random

from mon.gen import recipe, texts, trees
from mon.monitor import alias
from mon.oracle import treesnap
from mon.oracle.serializer import serialize
from mon.props import common

LEVEL = 'exploration'
RULE = ('random operation histories (length 30-200) over a pool of up to 6 '
        'live trees: construct with defaults / with attributes, add_change, '
        'add_file, parse (always through ONE shared DiffXDOMReader), '
        'serialise (through ONE shared DiffXDOMWriter and via to_bytes), '
        'in-place mutation of meta dictionaries, nested values and options '
        'dictionaries, typed assignments, generate_stats, and observers '
        '(to_bytes, ==, !=, repr, iteration, subsections). The harness never '
        'hands one mutable object to two trees. Monitor: snapshots of ALL '
        'live trees before and after every operation - only the target of a '
        'mutator may change, nothing may change under an observer, two '
        'consecutive serialisations must be identical; at quiescent points '
        'an id()-graph alias detector nominates mutable objects reachable '
        'from two trees / sections, confirmed behaviourally. Non-trivial = '
        'history touches >= 3 trees; distinct = fingerprint of the history '
        'seed.')
RULE += (
         ' Also: options keys a parsed header carries (length, format, '
         'version ...) set directly before observers run; nested '
         'default_value of content-section subclasses must not be shared '
         'between instances or with the class. Process axes (DESIGN 2.8): 2 '
         'of 16 shards run under python -O, 4 of 16 after a hostile warm-up '
         'of the library.')
FLOOR = {'quick': 1000, 'thorough': 30000}
REQUIRED_REACH = ['dom/reader.py:', 'dom/writer.py:']
REQUIRED_COUNTERS = ['structure_invariants_checked', 'op:edit_lists_in_place',
                     'op:parse_shared_reader', 'op:serialise_shared_writer',
                     'op:mutate_meta_in_place', 'op:mutate_options_in_place',
                     'snapshots_compared', 'alias_scans']
ASSUMPTIONS = [
    'snapshots read public attributes only (options, content, subsections)',
]


def _huge_indent(tree):
    try:
        secs = [tree.preamble_section] + [c.preamble_section
                                          for c in tree.changes]
        return any(isinstance(s.options.get('indent'), int) and
                   s.options['indent'] > 100000 for s in secs)
    except Exception:
        return False


class World(object):
    def __init__(self, rng, obs, seed):
        from pydiffx.dom import DiffX
        from pydiffx.dom.reader import DiffXDOMReader
        from pydiffx.dom.writer import DiffXDOMWriter
        self.DiffX = DiffX
        self.reader = DiffXDOMReader(DiffX)
        self.writer = DiffXDOMWriter()
        self.rng = rng
        self.obs = obs
        self.trees = []
        self.log = []
        self.seed = seed
        self.failed = False
        self.bytes_pool = []

    def snaps(self):
        return [treesnap.snapshot(t) for t in self.trees]

    def structure_fail(self):
        """The public views of one tree must agree with each other at all
        times: subsections == [preamble, meta] + changes/files (same objects,
        same order), iteration == subsections."""
        self.obs.count('structure_invariants_checked')
        for ti, t in enumerate(self.trees):
            try:
                subs = list(t.subsections)
                if len(subs) != 2 + len(t.changes) or \
                        any(a is not b for a, b in zip(subs[2:], t.changes)):
                    return ('root_subsections_vs_changes', ti)
                if [id(x) for x in t] != [id(x) for x in subs]:
                    return ('root_iteration_vs_subsections', ti)
                for c in t.changes:
                    cs = list(c.subsections)
                    if len(cs) != 2 + len(c.files) or \
                            any(a is not b for a, b in zip(cs[2:], c.files)):
                        return ('change_subsections_vs_files', ti)
                    if cs[0] is not c.preamble_section or \
                            cs[1] is not c.meta_section:
                        return ('change_subsections_vs_sections', ti)
                    for f in c.files:
                        fs = list(f.subsections)
                        if len(fs) != 2 or fs[0] is not f.meta_section or \
                                fs[1] is not f.diff_section:
                            return ('file_subsections_vs_sections', ti)
            except Exception as e:
                return ('raised:%s' % type(e).__name__, ti)
        return None

    def op_edit_lists(self):
        """In-place edits of the public changes / files lists."""
        i = self.pick()
        t = self.trees[i]

        def f():
            r = self.rng.random()
            if r < 0.3 and len(t.changes) > 1:
                t.changes.reverse()
            elif r < 0.6 and t.changes and len(t.changes[0].files) > 1:
                t.changes[0].files.reverse()
            elif r < 0.8 and t.changes and t.changes[-1].files:
                c = t.changes[-1]
                old = c.files.pop()
                c.add_file(meta={'path': 'replacement'})
                del old
            elif t.changes:
                c = self.rng.choice(t.changes)
                c.files.sort(key=lambda s: repr(s.meta))
        self.step('edit_lists_in_place', i, f, True)
        # the serialisation must follow the lists as they are now
        try:
            data = t.to_bytes()
        except Exception:
            return
        try:
            back = self.DiffX.from_bytes(data)
            paths = [[fl.meta.get('path') for fl in c.files]
                     for c in t.changes]
            paths2 = [[fl.meta.get('path') for fl in c.files]
                      for c in back.changes]
            self.obs.count('list_edit_serialisations_compared')
            if paths != paths2:
                self.obs.violation('serialisation_ignores_list_edit',
                                   self.case(), {'tree': paths,
                                                 'bytes': paths2})
                self.failed = True
        except Exception:
            pass

    def eq_matrix(self):
        out = []
        for a in self.trees:
            row = []
            for b in self.trees:
                try:
                    row.append(bool(a == b))
                except Exception:
                    row.append(None)
            out.append(row)
        return out

    def case(self):
        return {'seed': self.seed, 'ops': self.log[-12:],
                'n_ops': len(self.log)}

    def step(self, name, target, fn, mutator):
        """Run one operation under the all-trees snapshot monitor."""
        before = self.snaps()
        n_before = len(self.trees)
        eq_before = self.eq_matrix() if not mutator else None
        self.log.append([name, target])
        try:
            fn()
        except Exception as e:
            # library errors (unserialisable trees, ...) are legitimate; the
            # isolation oracle still applies
            self.obs.count('op_raised:%s' % type(e).__name__)
        after = self.snaps()
        inv = self.structure_fail()
        if inv:
            self.obs.violation('tree_views_disagree:%s' % inv[0],
                               self.case(), {'tree': inv[1], 'after': name})
            self.failed = True
            return
        if eq_before is not None:
            # observers must not change how trees compare with each other
            # (state that is invisible in the public attributes still shows
            # in ==)
            eq_after = self.eq_matrix()
            self.obs.count('equality_matrices_compared')
            if eq_after != eq_before:
                self.obs.violation('observer_changed_equality:%s' % name,
                                   self.case(), {'target': target})
                self.failed = True
                return
        self.obs.count('op:%s' % name)
        self.obs.count('snapshots_compared', n_before)
        for i in range(n_before):
            if treesnap.equal(before[i], after[i]):
                continue
            if mutator and i == target:
                continue
            d = treesnap.first_diff(before[i], after[i])
            kind = ('observer_mutated_tree' if not mutator or i == target
                    else 'operation_changed_other_tree')
            self.obs.violation('%s:%s' % (kind, name), self.case(),
                               {'changed_tree': i, 'target': target,
                                'path': d[0], 'what': d[1]})
            self.failed = True
            return

    # ------------------------------------------------------------ operations
    def op_construct_default(self):
        def f():
            self.trees.append(self.DiffX())
        self.step('construct_default', None, f, True)

    def op_construct_attrs(self):
        spec = trees.gen_tree(self.rng, 2, 2, wild=True)

        def f():
            self.trees.append(trees.build(spec, self.rng))
        self.step('construct_with_attrs', None, f, True)

    def pick(self):
        return self.rng.randrange(len(self.trees))

    def op_add_change(self):
        i = self.pick()
        kw = {}
        if self.rng.random() < 0.5:
            kw = {'meta': texts.json_object(self.rng),
                  'preamble': 'p\n'}
        self.step('add_change', i, lambda: self.trees[i].add_change(**kw),
                  True)

    def op_add_file(self):
        i = self.pick()
        t = self.trees[i]
        if not t.changes:
            return
        kw = {'meta': {'path': 'x'}}
        if self.rng.random() < 0.5:
            kw['diff'] = b'-a\n+b\n'
        c = self.rng.choice(t.changes)
        self.step('add_file', i, lambda: c.add_file(**kw), True)

    def op_parse(self):
        if self.rng.random() < 0.12:
            # a foreign producer's file with empty-object metadata (length=3)
            # at every level - the library's own writer never emits these
            data = (b'#diffx: encoding=utf-8, version=1.0\n'
                    b'#.meta: format=json, length=3\n{}\n'
                    b'#.change:\n#..meta: format=json, length=3\n{}\n'
                    b'#..file:\n#...meta: format=json, length=3\n{}\n'
                    b'#..file:\n#...meta: length=3\n{}\n')
        elif self.rng.random() < 0.08:
            # several sections with byte-identical, large metadata (and
            # identical preambles / diffs): equal content is not shared
            # content
            big = {'blob': 'x' * self.rng.choice([300, 1100, 5000]),
                   'nested': {'list': [1, 2, {'deep': []}]}}
            f = {'encoding': None, 'meta': {'obj': big, 'encoding': None},
                 'diff': {'data': b'--- a\n+++ b\n@@ -1 +1 @@\n-a\n+b\n',
                          'encoding': None, 'line_endings': None,
                          'type': None}}
            pre = {'text': 'same text\n' * 40, 'encoding': None, 'indent': 4,
                   'line_endings': None, 'mimetype': None, 'explicit': True}
            doc = {'encoding': 'utf-8', 'preamble': dict(pre),
                   'meta': {'obj': copy.deepcopy(big), 'encoding': None},
                   'changes': [
                       {'encoding': None, 'preamble': dict(pre),
                        'meta': {'obj': copy.deepcopy(big), 'encoding': None},
                        'files': [copy.deepcopy(f), copy.deepcopy(f)]},
                       {'encoding': None, 'preamble': dict(pre),
                        'meta': {'obj': copy.deepcopy(big), 'encoding': None},
                        'files': [copy.deepcopy(f)]}]}
            data = serialize(doc)[0]
        elif self.bytes_pool and self.rng.random() < 0.5:
            data = self.rng.choice(self.bytes_pool)
        else:
            data, lay = serialize(recipe.gen_doc(self.rng, 2, 2))
            if self.rng.random() < 0.2:
                # a load that fails half-way must not leave anything behind
                # in the shared reader object
                from mon.gen import corrupt
                _, data = corrupt.corrupt(self.rng, data, lay, 1)

        def f():
            shared_exc = fresh_exc = None
            try:
                t = self.reader.parse(io.BytesIO(data))
            except Exception as e:
                shared_exc = e
            try:
                ref = self.DiffX.from_bytes(data)
            except Exception as e:
                fresh_exc = e
            self.obs.count('shared_vs_fresh_parse_compared')
            if (shared_exc is None) != (fresh_exc is None):
                self.obs.violation(
                    'shared_reader_result_differs_from_fresh:outcome',
                    self.case(), {'shared': repr(shared_exc)[:200],
                                  'fresh': repr(fresh_exc)[:200]})
                self.failed = True
            elif shared_exc is None and _huge_indent(t):
                # a corrupted header declared an indent of millions of
                # spaces: serialising that tree allocates indent x lines
                # bytes (a cost question, not an isolation one); not kept
                self.obs.count('parsed_tree_with_huge_indent_not_kept')
            elif shared_exc is None:
                # ref has not been looked at by anything yet: observing t
                # must not make it differ from its untouched twin
                eq0 = (t == ref)
                try:
                    repr(t)
                    t.to_bytes()
                    for s in t:
                        repr(s)
                except Exception:
                    pass
                eq1 = (t == ref)
                self.obs.count('untouched_twin_comparisons')
                if not eq0 or not eq1:
                    self.obs.violation(
                        'observed_tree_differs_from_untouched_twin:%s'
                        % ('before_observers' if not eq0
                           else 'after_observers'), self.case())
                    self.failed = True
                if not treesnap.equal(treesnap.snapshot(t),
                                      treesnap.snapshot(ref)):
                    d = treesnap.first_diff(treesnap.snapshot(ref),
                                            treesnap.snapshot(t))
                    self.obs.violation(
                        'shared_reader_result_differs_from_fresh:tree',
                        self.case(), {'path': d[0], 'what': d[1]})
                    self.failed = True
                self.trees.append(t)
        self.step('parse_shared_reader', None, f, True)

    def op_serialise_writer(self):
        i = self.pick()

        def f():
            s = io.BytesIO()
            shared_exc = fresh_exc = None
            try:
                self.writer.write_stream(self.trees[i], s)
            except Exception as e:
                shared_exc = e
            try:
                ref = self.trees[i].to_bytes()
            except Exception as e:
                fresh_exc = e
            self.obs.count('shared_vs_fresh_serialisation_compared')
            if (shared_exc is None) != (fresh_exc is None) or (
                    shared_exc is not None and
                    type(shared_exc) is not type(fresh_exc)):
                self.obs.violation(
                    'shared_writer_result_differs_from_fresh:outcome',
                    self.case(), {'shared': repr(shared_exc)[:200],
                                  'fresh': repr(fresh_exc)[:200]})
                self.failed = True
            elif shared_exc is None:
                if s.getvalue() != ref:
                    self.obs.violation(
                        'shared_writer_result_differs_from_fresh:bytes',
                        self.case(), {'shared': s.getvalue()[:200],
                                      'fresh': ref[:200]})
                    self.failed = True
                self.bytes_pool.append(s.getvalue())
        self.step('serialise_shared_writer', i, f, False)

    def op_to_bytes_twice(self):
        i = self.pick()

        def f():
            a = self.trees[i].to_bytes()
            b = self.trees[i].to_bytes()
            self.obs.count('double_serialisations_compared')
            if a != b:
                self.obs.violation('two_serialisations_differ', self.case())
                self.failed = True
            self.bytes_pool.append(a)
        self.step('to_bytes_twice', i, f, False)

    def _sections(self, t):
        out = [t]
        for c in t.changes:
            out.append(c)
            out.extend(c.files)
        return out

    def op_mutate_meta(self):
        i = self.pick()
        sec = self.rng.choice(self._sections(self.trees[i]))

        def f():
            m = sec.meta
            r = self.rng.random()
            if r < 0.12:
                # values json can write but that are not JSON-native; a
                # serialiser must not "normalise" the caller's objects
                m['py%d' % self.rng.randrange(3)] = self.rng.choice([
                    {1: 'int key', 2: [3, (4, 5)]}, (1, 2, ('a', 'b')),
                    [{7: {8: 'deep'}}], {True: 'bool key'}])
            elif r < 0.4 or not m:
                m['k%d' % self.rng.randrange(5)] = texts.json_value(self.rng)
            elif r < 0.6:
                m.pop(self.rng.choice(list(m)))
            else:
                k = self.rng.choice(list(m))
                v = m[k]
                if isinstance(v, dict):
                    v['nested'] = self.rng.randrange(100)
                elif isinstance(v, list):
                    v.append(self.rng.randrange(100))
                else:
                    m[k] = [v]
        self.step('mutate_meta_in_place', i, f, True)

    def op_mutate_options(self):
        i = self.pick()
        sec = self.rng.choice(self._sections(self.trees[i]))
        sub = self.rng.choice(list(sec.subsections)[:2] + [sec])

        def f():
            o = sub.options
            r = self.rng.random()
            if r < 0.12:
                # options may be manipulated directly; None = "not set"
                o[self.rng.choice(['indent', 'mimetype', 'encoding',
                                   'line_endings', 'type'])] = None
            elif r < 0.22:
                # keys a parsed header carries (a tree assembled by hand
                # from reader records has them): serialising such a tree
                # may fail, but must not edit it
                o[self.rng.choice(['length', 'length', 'format', 'version',
                                   'x-custom', 'content', 'metadata'])] = \
                    self.rng.choice([5, 0, 'v', None])
            elif r < 0.5:
                o['encoding'] = self.rng.choice(['utf-8', 'latin-1',
                                                 'utf-16'])
            elif r < 0.7 and o:
                o.pop(self.rng.choice(list(o)))
            else:
                o['line_endings'] = self.rng.choice(['unix', 'dos'])
        self.step('mutate_options_in_place', i, f, True)

    def op_typed_assign(self):
        i = self.pick()
        sec = self.rng.choice(self._sections(self.trees[i]))
        attr, val = self.rng.choice([
            ('encoding', 'latin-1'), ('meta_encoding', 'utf-16'),
            ('meta', {'fresh': [1]}), ('meta_format', 'json'),
            ('meta', {1: 'int keys only', 2: ['b', (3, 4)]}),
            ('meta', {7: {8: 9}}),
            ('preamble', 'new text\n'), ('preamble_indent', 2),
            ('diff', b'+x\n'), ('diff_type', 'text'),
            ('diff_line_endings', 'unix'), ('preamble_mimetype',
                                            'text/markdown'),
            ('encoding', 5), ('meta', 'wrong'), ('preamble_indent', 'x')])
        self.step('typed_assignment', i,
                  lambda: setattr(sec, attr, copy.deepcopy(val)), True)

    def op_generate_stats(self):
        i = self.pick()
        self.step('generate_stats', i,
                  lambda: self.trees[i].generate_stats(), True)

    def op_observers(self):
        i = self.pick()
        j = self.pick()

        def f():
            a, b = self.trees[i], self.trees[j]
            a == b
            a != b
            repr(a)
            for s in a:
                repr(s)
                list(getattr(s, 'subsections', ()))
            a.subsections
            for c in a.changes:
                c == c
                for fl in c.files:
                    repr(fl)
                    fl.subsections
        self.step('observers', i, f, False)

    def op_drop(self):
        if len(self.trees) > 2:
            self.trees.pop(self.rng.randrange(len(self.trees)))
            self.log.append(['drop', None])

    def alias_scan(self):
        self.obs.count('alias_scans')
        entries = {'T%d' % i: alias.reachable(t, 'T%d' % i)
                   for i, t in enumerate(self.trees)}
        self.obs.count('alias_objects_walked',
                       sum(len(v) for v in entries.values()))
        for obj, places in alias.shared(entries):
            # behavioural confirmation
            owners = sorted(set(int(o[1:]) for o, p in places))
            before = self.snaps()
            if isinstance(obj, dict):
                obj['__alias_probe__'] = 1
            elif isinstance(obj, list):
                obj.append('__alias_probe__')
            else:
                continue
            after = self.snaps()
            if isinstance(obj, dict):
                del obj['__alias_probe__']
            else:
                obj.pop()
            changed = [i for i in range(len(before))
                       if not treesnap.equal(before[i], after[i])]
            secs = set(p.split('.')[0] for o, p in places)
            if len(changed) > 1 or len(secs) > 1:
                kind = 'options' if any('.options' in p for o, p in places) \
                    else 'content'
                self.obs.violation('shared_mutable_state:%s' % kind,
                                   self.case(),
                                   {'places': [list(p) for p in places][:6],
                                    'trees_changed': changed})
                self.failed = True
                return


OPS = [('op_construct_default', 6), ('op_construct_attrs', 6),
       ('op_add_change', 8), ('op_add_file', 8), ('op_parse', 8),
       ('op_serialise_writer', 8), ('op_to_bytes_twice', 6),
       ('op_mutate_meta', 14), ('op_mutate_options', 8),
       ('op_typed_assign', 10), ('op_generate_stats', 5),
       ('op_observers', 8), ('op_drop', 3), ('op_edit_lists', 6)]


def run_history(seed, length, obs):
    rng = random.Random(seed)
    w = World(rng, obs, seed)
    w.op_construct_default()
    w.op_construct_default()
    names = [n for n, _ in OPS]
    weights = [x for _, x in OPS]
    touched = set()
    for k in range(length):
        if w.failed:
            break
        if len(w.trees) >= 6:
            w.op_drop()
        name = rng.choices(names, weights)[0]
        getattr(w, name)()
        if w.log and w.log[-1][1] is not None:
            touched.add(w.log[-1][1])
        if k % 15 == 14:
            w.alias_scan()
    if not w.failed:
        w.alias_scan()
    obs.case(('history', seed, length), nontrivial=len(touched) >= 3)


def check_default_value_isolation(obs):
    """Content-section classes take their initial content from the class
    attribute ``default_value``. With a *nested* default (a subclass, as an
    application would define one) two new sections must still not share
    anything mutable with each other or with the class."""
    from pydiffx.dom import objects
    for name in ('DiffXMetaSection', 'DiffXPreambleSection',
                 'DiffXFileDiffSection'):
        base = getattr(objects, name, None)
        if base is None or not hasattr(base, 'default_value'):
            obs.count('default_value_hook_absent')
            continue
        default = {'vendor': {'tags': [], 'reviewers': {}}}
        try:
            sub = type('Vendor' + name, (base,),
                       {'default_value': copy.deepcopy(default),
                        'data_type': dict})
            s1, s2 = sub(), sub()
            if s1.content != default:
                obs.count('default_value_hook_not_honoured')
                continue
        except Exception:
            obs.count('default_value_subclass_not_constructible')
            continue
        obs.count('default_value_isolation_checked')
        s1.content['vendor']['tags'].append('s1 only')
        s1.content['vendor']['reviewers']['a'] = True
        if s2.content != default or sub.default_value != default:
            obs.violation('shared_mutable_state:nested_default_value',
                          {'default_value_class': name},
                          {'other_section': repr(s2.content),
                           'class_default': repr(sub.default_value)})


def check_streaming_results_isolated(data, obs):
    """Records yielded by the streaming reader are parse results too: a
    consumer that edits or empties a record it was handed (its options
    dictionary included) must not change any record yielded later."""
    from pydiffx.reader import DiffXReader
    plain, vandal = [], []
    exc = [None, None]
    for k, out in enumerate((plain, vandal)):
        try:
            for r in DiffXReader(io.BytesIO(data)):
                out.append(copy.deepcopy(common.project(r)))
                if k == 1:
                    opts = r.get('options')
                    if isinstance(opts, dict):
                        opts.clear()
                        opts['encoding'] = 'utf-32'
                        opts['length'] = 1
                    for key in list(r):
                        if key != 'options':
                            r[key] = None
        except Exception as e:
            exc[k] = type(e).__name__
    obs.count('streaming_results_isolation_checked')
    if exc[0] != exc[1] or common.diff_records(plain, vandal) is not None:
        obs.violation('shared_mutable_state:streaming_record_feeds_back',
                      {'streaming_file': data},
                      {'untouched': exc[0], 'edited': exc[1],
                       'diff': common.diff_records(plain, vandal)})


def run(ctx):
    obs = ctx.obs
    rng = ctx.rng
    if ctx.index == 0:
        check_default_value_isolation(obs)
    for _ in range(ctx.share(ctx.pick(600, 20000))):
        doc = recipe.gen_doc(rng, 3, 3, enc_p=0.4)
        obs.case(('streaming', doc), nontrivial=True)
        check_streaming_results_isolated(serialize(doc)[0], obs)
    n = ctx.share(ctx.pick(1600, 50000))
    for k in range(n):
        seed = rng.randrange(1 << 40)
        length = rng.randint(30, ctx.pick(80, 200))
        run_history(seed, length, obs)
        if k == 0 and ctx.index == 0:
            obs.sample({'history_seed': seed, 'length': length,
                        'ops': 'see RULE'})


def replay(case, obs):
    if 'default_value_class' in case:
        return check_default_value_isolation(obs)
    if 'streaming_file' in case:
        return check_streaming_results_isolated(case['streaming_file'], obs)
    # histories are a pure function of their seed; replay the whole one
    run_history(case['seed'], max(case.get('n_ops', 100), 30) + 5, obs)
