"""C09 - writer order enforcement, atomic rejection, append-only output."""
import itertools

from mon.monitor.streams import MonitoredStream, check_append_only, \
    writes_between
from mon.oracle import hierarchy as H
from mon.oracle.serializer import serialize
from mon.props import common

LEVEL = 'exploration'
RULE = ('every history over the five writer calls {new_change, new_file, '
        'write_preamble, write_meta, write_diff} up to length L (counter '
        'history_max_len) is executed on a real DiffXWriter over an '
        'instrumented stream; before each step one must-raise '
        'invalid-argument variant (rotating through a 38-entry catalogue) is '
        'fired on the same writer, and hostile option values (unknown / '
        'non-ASCII / malformed codec names, odd indents) are fired on a '
        'forked writer under the weaker oracle "raises => atomic, accepted '
        '=> append-only". Oracle: acceptance from the specification '
        'hierarchy; zero bytes written and unchanged stream between call and '
        'raise; final bytes equal the spec serializer over the accepted '
        'calls only. Random histories of length 10-60 beyond. Distinct by '
        'construction (histories) + fingerprints (random); non-trivial = '
        'history contains at least one rejected and one accepted call.')
RULE += (
         ' Also: every hostile-option variant is fired once more with '
         'warnings turned into errors (whatever raises must be atomic); '
         'chunks handed to write() that are not immutable bytes must still '
         'hold the same bytes at the end (a sink may retain them). Process '
         'axes (DESIGN 2.8): 2 of 16 shards run under python -O, 4 of 16 '
         'after a hostile warm-up of the library.')
FLOOR = {'quick': 20000, 'thorough': 400000}
REQUIRED_REACH = ['writer.py:']
REQUIRED_COUNTERS = ['order_rejections_checked_atomic',
                     'invalid_variant_rejections_checked_atomic',
                     'accepted_calls', 'final_bytes_compared']
ASSUMPTIONS = [
    'which exception class a rejection uses is not part of the property',
    '"..meta -> .change" may be accepted or rejected (don\'t-care)',
]

CALLS = ['new_change', 'new_file', 'write_preamble', 'write_meta',
         'write_diff']


class Unserialisable(object):
    pass


#: (call, args, kwargs) that must raise in every state
MUST_RAISE = [
    ('write_preamble', (b'bytes\n',), {}),
    ('write_preamble', (None,), {}),
    ('write_preamble', (['x'],), {}),
    ('write_preamble', ('',), {}),
    ('write_preamble', ('x\n',), {'line_endings': 'mac'}),
    ('write_preamble', ('x\n',), {'mimetype': 'text/html'}),
    # a valid choice followed / preceded by something
    ('write_preamble', ('x\n',), {'mimetype': 'text/markdown; variant=GFM'}),
    ('write_preamble', ('x\n',), {'mimetype': 'text/plain;'}),
    ('write_preamble', ('x\n',), {'mimetype': 'text/plain, a=b'}),
    ('write_preamble', ('x\n',), {'mimetype': ' text/plain'}),
    ('write_preamble', ('x\n',), {'line_endings': 'unix '}),
    ('write_preamble', ('x\n',), {'line_endings': 'dos\n'}),
    ('write_diff', (b'x\n',), {'diff_type': 'text;binary'}),
    ('write_diff', (b'x\n',), {'line_endings': 'unix,dos'}),
    ('write_preamble', ('é\n',), {'encoding': 'ascii'}),
    ('write_preamble', ('\ud800\n',), {'encoding': 'utf-8'}),
    # lone surrogates of every range (os.fsdecode() produces U+DC80..DCFF)
    # are not encodable in any codec
    ('write_preamble', ('caf\udce9\n',), {}),
    ('write_preamble', ('caf\udce9\n',), {'encoding': 'ascii'}),
    ('write_preamble', ('\udc80\n',), {'encoding': 'latin-1'}),
    ('write_preamble', ('x\udcff\n',), {'encoding': 'utf-16'}),
    ('write_preamble', ('\udfff',), {'encoding': 'utf-8', 'indent': 2}),
    ('write_meta', ('str',), {}),
    ('write_meta', (None,), {}),
    ('write_meta', ([],), {}),
    ('write_meta', ({},), {}),
    ('write_meta', ({'k': 'v'},), {'meta_format': 'yaml'}),
    ('write_diff', ('str\n',), {}),
    ('write_diff', (None,), {}),
    ('write_diff', (b'',), {}),
    ('write_diff', (b'x\n',), {'diff_type': 'patch'}),
    ('write_diff', (b'x\n',), {'line_endings': 'mac'}),
    ('write_preamble', ('x\n',), {'line_endings': ''}),
    ('write_diff', (b'x\n',), {'line_endings': ''}),
    ('write_meta', ({'k': 'v'},), {'line_endings': ''}),
    ('write_preamble', ('x\n',), {'mimetype': ''}),
    ('write_diff', (b'x\n',), {'diff_type': ''}),
    ('write_meta', ({'k': 'v'},), {'meta_format': ''}),
    ('write_preamble', ('x\n',), {'line_endings': 'DOS'}),
]

#: hostile option values: if the call raises it must be atomic, if it is
#: accepted it may only append
WEAK = [
    ('new_change', (), {'encoding': 'nope'}),
    ('new_change', (), {'encoding': 'é'}),
    ('new_file', (), {'encoding': 'utf-8 '}),
    ('new_file', (), {'encoding': 'a b'}),
    ('new_change', (), {'encoding': 'a,b=c'}),
    ('write_preamble', ('x\n',), {'encoding': 'nope'}),
    ('write_preamble', ('x\n',), {'encoding': 'ü'}),
    ('write_preamble', ('x\n',), {'indent': -1}),
    ('write_preamble', ('x\n',), {'indent': '4'}),
    ('write_preamble', ('x\n',), {'indent': 2.5}),
    ('write_meta', ({'k': 'v'},), {'encoding': 'nope'}),
    ('write_meta', ({'k': 'v'},), {'encoding': 'ü'}),
    ('write_diff', (b'x\n',), {'encoding': 'nope'}),
    ('write_diff', (b'x\n',), {'encoding': 'ü'}),
    ('write_diff', (b'x\n',), {'encoding': 'base64'}),
    # Python folds the en dash into a separator: the codec resolves, the
    # content is prepared, and only the ASCII header cannot be written
    ('write_preamble', ('x\n',), {'encoding': 'utf\u20138'}),
    ('write_meta', ({'k': 'v'},), {'encoding': 'utf\u20138'}),
    ('write_diff', (b'x\n',), {'encoding': 'latin\u20131'}),
    ('write_preamble', ('x\n',), {'encoding': 'utf-8\u00e9'}),
    ('new_file', (), {'encoding': 'utf\u20138'}),
    # arguments the property does not classify (a library may learn to
    # accept them): only atomicity / append-only are demanded
    ('write_meta', ({'k': Unserialisable()},), {}),
    ('write_meta', ({1: 'v', 'a': 'b'},), {}),
    ('write_diff', (bytearray(b'x\n'),), {}),
    ('write_meta', ({'k': 'v'},), {'meta_format': None}),
    ('write_preamble', ('x\n',), {'line_endings': 0}),
    ('write_meta', ({'k': float('nan')},), {}),
]

ENCS = [None, None, 'utf-16', 'latin-1', 'utf-32-be', None, 'ANSI_X3.4-1968',
        'iso-8859-1', 'IBM437', 'utf_8', None, 'US-ASCII', 'cp1252',
        'csISOLatin1', 'UTF-8', 'l1', 'iso8859.1']


def valid_args(call, step):
    enc = ENCS[step % len(ENCS)]
    kw = {'encoding': enc} if enc else {}
    positional = step % 5 == 3      # documented parameter order, no keywords
    if call == 'write_preamble':
        # non-ASCII text only when the section's OWN encoding can carry it
        # (an inherited one may be an ASCII alias from an earlier container)
        wide = enc and 'ASCII' not in enc.upper() and \
            enc != 'ANSI_X3.4-1968'
        text = ('pré %d\nline\n' if wide else 'pre %d\nline\n') % step
        if positional:
            return (text, enc, (step % 3) * 2), {}
        return (text,), dict(kw, indent=(step % 3) * 2)
    if call == 'write_meta':
        if positional:
            return ({'step': step, 'k': 'é'}, enc, 'json'), {}
        return ({'step': step, 'k': 'é'},), kw
    if call == 'write_diff':
        if positional:
            return (b'-a\n+b %d\n' % step, ('text', 'binary')[step % 2]), {}
        return (b'-a\n+b %d\n' % step,), {}
    if positional and enc:
        return (enc,), {}
    return (), kw


class Model(object):
    """Spec-side state: last section id + the document recipe built from the
    accepted calls."""

    def __init__(self):
        self.prev = 'diffx'
        self.doc = {'encoding': 'utf-8', 'changes': []}

    @property
    def depth(self):
        return {'diffx': 0, '.preamble': 0, '.meta': 0, '.change': 1,
                '..preamble': 1, '..meta': 1}.get(self.prev, 2)

    def target(self, call):
        return H.call_section(call, self.depth)

    def verdict(self, call):
        return H.verdict(self.prev, self.target(call))

    def apply(self, call, args, kwargs):
        sid = self.target(call)
        doc = self.doc
        if call in ('new_change', 'new_file') and args:
            kwargs = dict(kwargs, encoding=args[0])
        if call == 'new_change':
            doc['changes'].append({'encoding': kwargs.get('encoding'),
                                   'files': []})
        elif call == 'new_file':
            doc['changes'][-1]['files'].append(
                {'encoding': kwargs.get('encoding')})
        else:
            names = {'write_preamble': ('text', 'encoding', 'indent',
                                        'line_endings', 'mimetype'),
                     'write_meta': ('metadata', 'encoding', 'meta_format'),
                     'write_diff': ('content', 'diff_type', 'encoding',
                                    'line_endings')}[call]
            kwargs = dict(kwargs)
            for n, v in zip(names[1:], args[1:]):
                kwargs[n] = v
            if self.depth == 0:
                cont = doc
            elif self.depth == 1:
                cont = doc['changes'][-1]
            else:
                cont = doc['changes'][-1]['files'][-1]
            if call == 'write_preamble':
                cont['preamble'] = {
                    'text': args[0], 'encoding': kwargs.get('encoding'),
                    'indent': kwargs.get('indent', 4),
                    'line_endings': kwargs.get('line_endings'),
                    'mimetype': kwargs.get('mimetype')}
            elif call == 'write_meta':
                cont['meta'] = {'obj': args[0],
                                'encoding': kwargs.get('encoding')}
            else:
                cont['diff'] = {'data': args[0],
                                'encoding': kwargs.get('encoding'),
                                'line_endings': kwargs.get('line_endings'),
                                'type': kwargs.get('diff_type')}
        self.prev = sid


def state_probe(w):
    try:
        return (len(w._stack), w._prev_section,
                [d.get('encoding') for d in w._stack])
    except Exception:
        return None


def fire(w, stream, call, args, kwargs, strict_warnings=False):
    """Call and observe. Returns (exc, bytes_written, stream_changed,
    append_fails, probe_before, probe_after)."""
    import warnings
    before = stream.getvalue()
    m0 = stream.mark()
    p0 = state_probe(w)
    exc = None
    try:
        if strict_warnings:
            # a process run with -W error: a warning the call emits is an
            # exception leaving the call - "raises => atomic" applies to it
            # like to any other
            with warnings.catch_warnings():
                warnings.simplefilter('error')
                getattr(w, call)(*args, **kwargs)
        else:
            getattr(w, call)(*args, **kwargs)
    except Exception as e:
        exc = e
    written = writes_between(stream, m0)
    after = stream.getvalue()
    fails = check_append_only(stream, m0)
    if not after.startswith(before):
        fails.append('earlier_bytes_changed')
    return exc, written, after != before, fails, p0, state_probe(w)


def run_history(history, obs, variant_seed=0, weak_states=None):
    from pydiffx.writer import DiffXWriter
    stream = MonitoredStream()
    w = DiffXWriter(stream)
    model = Model()
    case = {'history': list(history), 'variant_seed': variant_seed}
    n_acc = n_rej = 0
    accepted_prefix = []
    for step, call in enumerate(history):
        # 1. a must-raise invalid-argument variant on the same writer
        vi = (variant_seed + step * 7) % len(MUST_RAISE)
        vcall, vargs, vkw = MUST_RAISE[vi]
        exc, written, changed, fails, p0, p1 = fire(w, stream, vcall, vargs,
                                                    vkw)
        obs.seen('state_x_invalid_variant', '%s|%d' % (model.prev, vi))
        if exc is None:
            obs.violation('invalid_argument_accepted:%s#%d' % (vcall, vi),
                          dict(case, step=step), {'state': model.prev})
            return
        obs.count('invalid_variant_rejections_checked_atomic')
        if written or changed:
            obs.violation('rejected_call_wrote_bytes:invalid_argument:%s#%d'
                          % (vcall, vi), dict(case, step=step),
                          {'bytes': written, 'state': model.prev,
                           'error': repr(exc)})
            return
        if p0 != p1:
            obs.count('probe:state_changed_by_rejected_call(diagnostic)')
        # 2. hostile option values on a forked writer (weak oracle)
        if weak_states is not None:
            for wi, (wcall, wargs, wkw) in enumerate(WEAK):
                key = (model.prev, wi)
                if key in weak_states:
                    continue
                weak_states.add(key)
                fork_weak(accepted_prefix, wcall, wargs, wkw, wi, obs, case,
                          model.prev)
                fork_weak(accepted_prefix, wcall, wargs, wkw, wi, obs, case,
                          model.prev, strict_warnings=True)
        # 3. the call of the history itself
        args, kwargs = valid_args(call, step)
        verdict = model.verdict(call)
        target = model.target(call)
        exc, written, changed, fails, p0, p1 = fire(w, stream, call, args,
                                                    kwargs)
        obs.seen('state_x_call', '%s|%s' % (model.prev, call))
        if exc is None:
            n_acc += 1
            obs.count('accepted_calls')
            if verdict == 'reject':
                obs.violation('accepted_illegal_call:%s->%s' % (model.prev,
                                                                target),
                              dict(case, step=step))
                return
            if verdict == 'either':
                obs.count('tolerance:dont_care_accepted')
            if fails:
                obs.violation('accepted_call:%s' % fails[0],
                              dict(case, step=step))
                return
            model.apply(call, args, kwargs)
            accepted_prefix.append((call, args, kwargs))
        else:
            n_rej += 1
            if verdict == 'accept':
                obs.violation('rejected_legal_call:%s->%s:%s' % (
                    model.prev, target, type(exc).__name__),
                    dict(case, step=step), repr(exc))
                return
            if verdict == 'either':
                obs.count('tolerance:dont_care_rejected')
            obs.count('order_rejections_checked_atomic')
            if written or changed:
                obs.violation('rejected_call_wrote_bytes:wrong_order:%s'
                              % call, dict(case, step=step),
                              {'bytes': written, 'state': model.prev})
                return
            if p0 != p1:
                obs.count('probe:state_changed_by_rejected_call(diagnostic)')
    # "as if the rejected calls had not been made"
    want, lay = serialize(model.doc)
    obs.count('final_bytes_compared')
    got = stream.getvalue()
    if not common.bytes_equivalent(got, want, lay)[0]:
        obs.violation('output_differs_from_accepted_calls_only', case,
                      {'got': got[:400], 'want': want[:400]})
    return n_acc, n_rej


def fork_weak(prefix, wcall, wargs, wkw, wi, obs, case, state,
              strict_warnings=False):
    import warnings
    from pydiffx.writer import DiffXWriter
    stream = MonitoredStream()
    w = DiffXWriter(stream)
    try:
        for c, a, k in prefix:
            getattr(w, c)(*a, **k)
    except Exception:
        return
    exc, written, changed, fails, p0, p1 = fire(w, stream, wcall, wargs, wkw,
                                                strict_warnings)
    obs.count('weak_variants_fired')
    if strict_warnings:
        obs.count('weak_variants_fired_with_warnings_as_errors')
        if isinstance(exc, Warning):
            obs.count('weak_variant_raised_a_warning')
    wcase = dict(case, weak_variant=wi, state=state,
                 prefix=[c for c, a, k in prefix],
                 strict_warnings=strict_warnings)
    if exc is not None:
        obs.count('weak_variant_raised')
        if written or changed:
            obs.violation('rejected_call_wrote_bytes:hostile_option:%s(%s)'
                          % (wcall, sorted(wkw)[0] if wkw else ''), wcase,
                          {'bytes': written, 'error': repr(exc),
                           'tail': stream.getvalue()[-40:]})
        else:
            if p0 != p1:
                obs.count('probe:state_changed_by_rejected_call(diagnostic)')
            # behavioural confirmation: the writer must continue exactly as
            # a control writer that never received the call
            # (i) each of the five calls directly after the rejected call
            for c in CALLS:
                a, k = valid_args(c, 1)
                outs = []
                for with_rejected in (True, False):
                    s2 = MonitoredStream()
                    w2 = DiffXWriter(s2)
                    for pc, pa, pk in prefix:
                        getattr(w2, pc)(*pa, **pk)
                    if with_rejected:
                        try:
                            with warnings.catch_warnings():
                                if strict_warnings:
                                    warnings.simplefilter('error')
                                getattr(w2, wcall)(*wargs, **wkw)
                        except Exception:
                            pass
                    try:
                        getattr(w2, c)(*a, **k)
                        outs.append((None, s2.getvalue()))
                    except Exception as e:
                        outs.append((type(e).__name__, s2.getvalue()))
                obs.count('weak_variant_next_call_compared')
                if outs[0] != outs[1]:
                    obs.violation(
                        'rejected_call_changed_later_behaviour:hostile_'
                        'option:%s' % wcall, wcase,
                        {'next_call': c, 'after_rejected': outs[0][0],
                         'control': outs[1][0]})
                    return
            # (ii) a longer continuation
            cstream = MonitoredStream()
            cw = DiffXWriter(cstream)
            for c, a, k in prefix:
                getattr(cw, c)(*a, **k)
            for step, c in enumerate(('write_preamble', 'write_meta',
                                      'new_change', 'write_preamble',
                                      'new_file', 'write_meta', 'write_diff',
                                      'new_file', 'new_change')):
                a, k = valid_args(c, step)
                r = []
                for ww in (w, cw):
                    try:
                        getattr(ww, c)(*a, **k)
                        r.append(None)
                    except Exception as e:
                        r.append(type(e).__name__)
                if r[0] != r[1] or stream.getvalue() != cstream.getvalue():
                    obs.violation(
                        'rejected_call_changed_later_behaviour:hostile_'
                        'option:%s' % wcall, wcase,
                        {'followup_step': step, 'call': c, 'outcomes': r})
                    break
            obs.count('weak_variant_continuations_compared')
    else:
        obs.count('weak_variant_accepted')
        if fails:
            obs.violation('accepted_call:%s' % fails[0], wcase)


def check_constructor(obs):
    from pydiffx.writer import DiffXWriter
    for kw, must in (({'version': '2.0'}, True), ({'version': None}, True),
                     ({'version': 1.0}, True),
                     ({'encoding': 'é'}, False),
                     ({'encoding': 'a b'}, False)):
        stream = MonitoredStream()
        exc = None
        try:
            DiffXWriter(stream, **kw)
        except Exception as e:
            exc = e
        obs.count('constructor_variants')
        if exc is None and must:
            obs.violation('constructor_accepted_invalid:%s' % sorted(kw)[0],
                          {'constructor': {k: repr(v) for k, v in kw.items()}})
        if exc is not None and stream.getvalue():
            obs.violation('rejected_call_wrote_bytes:constructor(%s)'
                          % sorted(kw)[0],
                          {'constructor': {k: repr(v) for k, v in kw.items()}},
                          {'written': stream.getvalue(), 'error': repr(exc)})


def install_invariant(obs):
    """icontract class invariant on the writer (diagnostic only)."""
    try:
        import icontract
        from pydiffx.writer import DiffXWriter
    except Exception:
        return
    st = {'n': 0, 'bad': 0}

    def depth_consistent(self):
        st['n'] += 1
        try:
            prev = self._prev_section
            depth = len(self._stack) - 1
            lv = len(prev) - len(prev.lstrip('.'))
            name = prev.lstrip('.')
            want = lv + 1 if name in ('diffx', 'change', 'file') else lv
            if not (1 <= depth <= 3) or depth != want:
                st['bad'] += 1
        except Exception:
            pass
        return True
    try:
        icontract.invariant(depth_consistent)(DiffXWriter)
    except Exception:
        return
    return st


def run(ctx):
    obs = ctx.obs
    rng = ctx.rng
    inv = install_invariant(obs)
    if ctx.index == 0:
        check_constructor(obs)
    L = ctx.pick(7, 9)
    weak_states = set()
    i = 0
    n = 0
    nontrivial = 0
    for ln in range(1, L + 1):
        for hist in itertools.product(CALLS, repeat=ln):
            i += 1
            if not ctx.mine(i):
                continue
            r = run_history(hist, obs, variant_seed=i, weak_states=weak_states)
            n += 1
            if r and r[0] and r[1]:
                nontrivial += 1
    obs.case(None, nontrivial=False, n=n)
    obs.distinct_by_construction(nontrivial)
    obs.exhaustive = True
    if ctx.index == 0:
        obs.count('history_max_len', L)
        obs.sample({'history': ['new_change', 'write_diff', 'new_file',
                                'write_meta', 'write_diff'],
                    'note': 'write_diff after new_change must be rejected '
                            'atomically; the rest accepted'})
    # random long histories biased towards legal moves
    for k in range(ctx.share(ctx.pick(1500, 60000))):
        m = Model()
        hist = []
        for _ in range(rng.randint(10, 60)):
            legal = [c for c in CALLS if m.verdict(c) == 'accept']
            c = rng.choice(legal) if rng.random() < 0.7 else rng.choice(CALLS)
            hist.append(c)
            if m.verdict(c) == 'accept':
                m.apply(c, *valid_args(c, 0))
        obs.case(tuple(hist), nontrivial=True)
        run_history(hist, obs, variant_seed=rng.randrange(1000),
                    weak_states=weak_states)
    if inv:
        obs.count('icontract_invariant_evaluations', inv['n'])
        obs.count('icontract_invariant_depth_inconsistent(diagnostic)',
                  inv['bad'])


def replay(case, obs):
    obs.case(None, nontrivial=False)
    if 'constructor' in case:
        check_constructor(obs)
        return
    run_history(case['history'], obs, case.get('variant_seed', 0),
                weak_states=set())
