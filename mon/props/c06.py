"""C06 - parse then re-serialise: identical on canonical files, idempotent on
foreign ones."""
from mon.gen import recipe
from mon.monitor.streams import MonitoredStream
from mon.oracle.serializer import serialize, expected_records, Style
from mon.props import common
from mon.props.c03 import ascii_doc, JSON_STYLES

LEVEL = 'exploration'
RULE = ('canonical part: random recipes (as C01) are written by the real '
        'writer AND by the spec serializer (must coincide); '
        'DiffX.from_bytes(b).to_bytes() must return b. Foreign part: the '
        'same recipes serialised with the liberties the property lists '
        '(shuffled options, blank lines, CRLF headers, compact / 2-space / '
        'CRLF / raw-unicode JSON, omitted optional options incl. the main '
        'encoding) are loaded; when the object model accepts the file, '
        're-serialising must succeed, the re-serialised file must read back '
        '(streaming reader) with the same section ids and contents, and a '
        'second parse/serialise cycle must change nothing. Non-trivial = '
        'file has >= 2 content sections; distinct = fingerprint of the '
        'bytes.')
RULE += (
         ' Also: foreign files whose indented preambles leave blank lines '
         'unpadded (content shorter than the declared indent, same indent on'
         ' later preambles). Process axes (DESIGN 2.8): 2 of 16 shards run '
         'under python -O, 4 of 16 after a hostile warm-up of the library.')
FLOOR = {'quick': 5000, 'thorough': 150000}
REQUIRED_REACH = ['dom/writer.py:', 'dom/reader.py:']
REQUIRED_COUNTERS = ['canonical_identity_checked', 'foreign_accepted',
                     'foreign_fixed_point_checked',
                     'foreign:main_encoding_omitted']
ASSUMPTIONS = [
    'a foreign file the object model rejects with an error of its own '
    'family is outside the quantifier (counted)',
]


def check_canonical(doc, obs):
    from pydiffx.dom import DiffX
    want, layout = serialize(doc)
    stream = MonitoredStream()
    try:
        recipe.run_writer(recipe.writer_calls(doc), stream)
        data = stream.getvalue()
    except Exception as e:
        obs.case(None, nontrivial=False)
        obs.count('writer_raised(see C01)')
        return
    ncontent = sum(1 for s in layout if 'coff' in s)
    obs.case(data, nontrivial=ncontent >= 2)
    if data != want:
        obs.count('writer_differs_from_oracle(see C02)')
    case = {'recipe': doc}
    for label, b in (('writer', data), ('oracle', want)):
        if label == 'oracle' and want == data:
            continue
        if label == 'oracle' and common.bytes_equivalent(data, want,
                                                         layout)[0]:
            # the library spells JSON strings differently from the oracle:
            # the oracle's bytes are then not a file the library itself
            # produces (the foreign-file part covers them)
            obs.count('tolerance:oracle_bytes_not_library_spelling')
            continue
        try:
            tree = DiffX.from_bytes(b)
            # the same document inside a larger stream, positioned at its
            # first byte (e.g. after a mail / HTTP envelope)
            import io as _io
            st = _io.BytesIO(b'envelope\r\n\r\n' + b)
            st.seek(12)
            t2 = DiffX.from_stream(st)
            obs.count('from_stream_at_offset')
            if not (t2 == tree):
                obs.violation('from_stream_at_offset_differs', case)
                return
        except Exception as e:
            obs.violation('canonical_file_rejected:%s'
                          % common.exc_mechanism(e), case, repr(e)[:300])
            return
        try:
            out = tree.to_bytes()
        except Exception as e:
            obs.violation('canonical_reserialise_raised:%s'
                          % common.exc_mechanism(e), case, repr(e)[:300])
            return
        obs.count('canonical_identity_checked')
        try:
            out2 = tree.to_bytes()
        except Exception as e:
            out2 = repr(e)
        if out2 != out:
            obs.violation('second_serialisation_of_same_tree_differs', case,
                          {'second': out2[:200]})
            return
        if out != b:
            i = next((j for j in range(min(len(out), len(b)))
                      if out[j] != b[j]), min(len(out), len(b)))
            sec = [s for s in layout if s['hoff'] <= i][-1]
            obs.violation('canonical_not_identical:%s' % sec['kind'], case,
                          {'offset': i, 'got': out[max(0, i - 40):i + 60],
                           'want': b[max(0, i - 40):i + 60]})
            return


def contents(recs):
    out = []
    for r in recs:
        c = [r['section']]
        for k in common.CONTENT:
            if k in r:
                c.append(r[k])
        out.append(c)
    return out


def check_foreign(doc, st, data, layout, obs, tag):
    from pydiffx.dom import DiffX
    from pydiffx.errors import BaseDiffXError
    ncontent = sum(1 for s in layout if 'coff' in s)
    obs.case(data, nontrivial=ncontent >= 2)
    case = {'file': data, 'kind': tag}
    try:
        tree = DiffX.from_bytes(data)
    except BaseDiffXError:
        obs.count('foreign_not_accepted(library error)')
        return
    except Exception as e:
        obs.count('foreign_load_raised_foreign_exception(see C08)')
        return
    obs.count('foreign_accepted')
    obs.count('foreign:%s' % tag)
    if st.meta_line_endings:
        obs.count('foreign:meta_line_endings_option')
        case['kind'] = tag = tag + '+meta_line_endings'
    try:
        out = tree.to_bytes()
    except Exception as e:
        obs.violation('foreign_reserialise_raised:%s:%s' % (
            tag, common.exc_mechanism(e)), case, repr(e)[:300])
        return
    try:
        out2 = tree.to_bytes()
    except Exception as e:
        out2 = repr(e)
    if out2 != out:
        obs.violation('second_serialisation_of_same_tree_differs', case,
                      {'second': out2[:200]})
        return
    got, exc, _ = common.read_records(out)
    if exc is not None:
        obs.violation('foreign_reserialised_unreadable:%s'
                      % common.exc_mechanism(exc), case, repr(exc)[:300])
        return
    want = expected_records(layout)
    if not common.strict_equal(contents(want), contents(got)):
        a, b = contents(want), contents(got)
        i = next((j for j in range(min(len(a), len(b)))
                  if not common.strict_equal(a[j], b[j])),
                 min(len(a), len(b)))
        obs.violation('foreign_contents_changed:%s' % (
            a[i][0].lstrip('.') if i < len(a) else 'extra'), case,
            {'index': i, 'want': a[i] if i < len(a) else None,
             'got': b[i] if i < len(b) else None})
        return
    try:
        again = DiffX.from_bytes(out).to_bytes()
    except Exception as e:
        obs.violation('foreign_second_cycle_raised:%s'
                      % common.exc_mechanism(e), case, repr(e)[:300])
        return
    obs.count('foreign_fixed_point_checked')
    if again != out:
        obs.violation('foreign_not_a_fixed_point', case)


def gen_foreign(rng):
    r = rng.random()
    tag = 'main_encoding_declared'
    if r < 0.08:
        doc = ascii_doc(rng)
        # the object model needs text: keep only metadata-only variants too
        if rng.random() < 0.6:
            doc.pop('preamble', None)
            for ch in doc['changes']:
                ch.pop('preamble', None)
        tag = 'main_encoding_omitted'
    elif r < 0.2:
        # main encoding omitted but every change declares one
        doc = recipe.gen_doc(rng, max_changes=2, max_files=2, enc_p=0.3)
        for ch in doc['changes']:
            ch['encoding'] = ch['encoding'] or doc['encoding']
        for k in ('preamble', 'meta'):
            if doc.get(k):
                doc[k]['encoding'] = doc[k]['encoding'] or doc['encoding']
        doc['encoding'] = None
        tag = 'main_encoding_omitted'
    else:
        doc = recipe.gen_doc(rng, max_changes=3, max_files=3, enc_p=0.3)
    # (metadata numbers beyond the range of a double, e.g. 1e999, are NOT
    # generated: they parse to float('inf'), and a writer that refuses to
    # emit the non-JSON token "Infinity" - preserving change P8-a - is
    # within its rights; whether such a file "is accepted and must
    # re-serialise" is not decided by the property)
    unpadded = rng.random() < 0.1
    if unpadded:
        recipe.blank_lines_style(doc, rng)
    recipe.annotate_droppable(doc)
    st = Style(rng=rng, shuffle=rng.random() < 0.7,
               blank=rng.choice([0, 0, 1, 3]),
               crlf_headers=rng.random() < 0.35,
               drop=rng.sample(['line_endings', 'format', 'mimetype', 'type',
                                'indent'], rng.randint(0, 4)),
               json_style=rng.choice(JSON_STYLES),
               trailing_blank=rng.choice([0, 0, 2]),
               meta_line_endings=rng.random() < 0.2,
               unpadded_blank=unpadded)
    data, layout = serialize(doc, st)
    return doc, st, data, layout, tag


def run(ctx):
    obs = ctx.obs
    rng = ctx.rng
    for k in range(ctx.share(ctx.pick(6000, 200000))):
        doc = recipe.gen_doc(rng)
        # C06's quantifier is "options as in C01": indent >= 0. A preamble
        # written with indent=None (no indent option at all) is outside it:
        # the object model cannot represent "no indent option" (it records
        # the default 4 on re-serialisation, which C05 documents).
        for kind, sec, inh in recipe.iter_content(doc):
            if kind == 'preamble' and sec.get('indent') is None:
                sec['indent'] = 0
        if k % 5 == 0:
            # any accepted spelling of the codec names (what a producer
            # spelled must come back exactly as spelled)
            from mon.gen import codecs_cat
            def respell(e):
                try:
                    sp = codecs_cat.spellings(codecs_cat.canonical(e))
                    return rng.choice(sp) if sp else e
                except Exception:
                    return e
            for c in [doc] + doc['changes'] + [f for ch in doc['changes']
                                                for f in ch['files']]:
                if c.get('encoding') and c is not doc:
                    c['encoding'] = respell(c['encoding'])
            obs.count('canonical:respelled_container_encodings')
        check_canonical(doc, obs)
        if k < 1 and ctx.index == 0:
            obs.sample({'canonical_recipe': doc})
    for k in range(ctx.share(ctx.pick(6000, 200000))):
        doc, st, data, layout, tag = gen_foreign(rng)
        check_foreign(doc, st, data, layout, obs, tag)
        if k < 1 and ctx.index == 0:
            obs.sample({'foreign_file': data[:500]})


def replay(case, obs):
    if 'recipe' in case:
        check_canonical(case['recipe'], obs)
        return
    from pydiffx.dom import DiffX
    data = case['file']
    obs.case(None, nontrivial=False)
    # without the recipe: re-serialise + fixed point + contents via reader
    base, exc, _ = common.read_records(data)
    try:
        tree = DiffX.from_bytes(data)
    except Exception:
        return
    try:
        out = tree.to_bytes()
    except Exception as e:
        obs.violation('foreign_reserialise_raised:%s:%s' % (
            case.get('kind', '?'), common.exc_mechanism(e)), case, repr(e))
        return
    got, exc, _ = common.read_records(out)
    if exc is not None or not common.strict_equal(contents(base),
                                                  contents(got)):
        obs.violation('foreign_contents_changed:?', case)
        return
    if DiffX.from_bytes(out).to_bytes() != out:
        obs.violation('foreign_not_a_fixed_point', case)
