"""C17 - reader output independent of read-ahead blocks / header alignment."""
import os
import re

from mon import env
from mon.gen import recipe
from mon.monitor.streams import MonitoredStream, consumption
from mon.oracle.serializer import serialize, expected_records, Style
from mon.props import common

LEVEL = 'exploration'
RULE = ('metamorphic + stream-conservation monitor: base files with long '
        'headers (up to ~600 bytes via unknown options) and long content '
        'lines are read (1) with the first header padded by 0..2*block bytes '
        'through an unknown option, shifting every later header through '
        'every alignment relative to the 96-byte read-ahead block, (2) with '
        'the read-ahead block size set to every value 1..2*block and to '
        'values larger than the file (by re-binding the default of the '
        "reader's block-reading helper from the harness), (3) from a real "
        'buffered file. Records must equal those of the unpadded / default '
        'run; the instrumented stream must show every byte consumed exactly '
        'once in order (reads + seek-backs), and at each yield the stream '
        'position must be the end of the section just returned. '
        'Non-trivial = file has >= 3 content sections; distinct = (file, '
        'padding / block size) by construction.')
RULE += (
         ' Also: header lines of 1 MiB + 70001 (thorough: up to 5 MiB), gzip'
         ' / bz2 / xz streams, and 2-4 readers at work at once (seeded '
         'scheduler, interleaved generators). Process axes (DESIGN 2.8): 2 '
         'of 16 shards run under python -O, 4 of 16 after a hostile warm-up '
         'of the library.')
FLOOR = {'quick': 8000, 'thorough': 200000}
REQUIRED_REACH = ['reader.py:']
REQUIRED_COUNTERS = ['paddings_checked', 'stream_offsets_checked',
                     'buffered_stream_reads',
                     'position_at_yield_checked', 'real_file_reads']
ASSUMPTIONS = [
    'the block size knob is discovered by reflection (an int default / class '
    'attribute of DiffXReader named like chunk/block/ahead/buf); without one '
    'the block-size sweep is not applicable and the alignment sweep decides',
]

BLOCK = 96


import re as _re

_KNOB = _re.compile(r'chunk|block|ahead|buf', _re.I)


def find_block_knob():
    """Locate the reader's read-ahead block size without depending on one
    private name: (1) an int default of a reader method whose parameter name
    looks like a block size, (2) an int class attribute with such a name.
    Returns ('default', function, index) / ('attr', name) / None."""
    import inspect
    from pydiffx.reader import DiffXReader
    for name, fn in vars(DiffXReader).items():
        if not inspect.isfunction(fn) or not fn.__defaults__:
            continue
        params = list(inspect.signature(fn).parameters.values())
        with_def = [p for p in params if p.default is not inspect._empty]
        for i, p in enumerate(with_def):
            if _KNOB.search(p.name) and isinstance(p.default, int) and \
                    not isinstance(p.default, bool) and p.default >= 8:
                return ('default', fn, i)
    for name, v in vars(DiffXReader).items():
        if _KNOB.search(name) and isinstance(v, int) and \
                not isinstance(v, bool) and v >= 8:
            return ('attr', name)
    return None


def set_block(size):
    """Set the read-ahead block size of the real reader. Returns a restore
    callable or None if no block-size knob can be found."""
    try:
        from pydiffx.reader import DiffXReader
        knob = find_block_knob()
        if knob is None:
            return None
        if knob[0] == 'default':
            fn, i = knob[1], knob[2]
            old = fn.__defaults__
            fn.__defaults__ = old[:i] + (size,) + old[i + 1:]

            def restore():
                fn.__defaults__ = old
            return restore
        name = knob[1]
        old = getattr(DiffXReader, name)
        setattr(DiffXReader, name, size)

        def restore():
            setattr(DiffXReader, name, old)
        return restore
    except Exception:
        return None


def pad_first_header(data, n):
    eol = data.index(b'\n')
    h = data[:eol]
    cr = h.endswith(b'\r')
    if cr:
        h = h[:-1]
    if n == 0:
        return data, 0
    # ", x-pad=" is 8 bytes; shorter paddings use a shorter key
    if n < 5:
        return None, 0
    key = b'p'
    val = b'v' * (n - len(b', p='))
    h2 = h + b', ' + key + b'=' + val
    return h2 + (b'\r' if cr else b'') + data[eol:], len(h2) - len(h)


def read_with_positions(data, layout, obs, stream=None, offset=0):
    """Read, checking the stream position at each yield (when a layout is
    given) and conservation at the end. Returns (records, exc, fails)."""
    from pydiffx.reader import DiffXReader
    if stream is None:
        if offset:
            stream = MonitoredStream(b'\x02' * offset + data)
            stream._s.seek(offset)
            stream.start = offset
        else:
            stream = MonitoredStream(data)
    recs = []
    exc = None
    fails = []
    try:
        for i, r in enumerate(DiffXReader(stream)):
            recs.append(common.project(r))
            if layout is not None and i < len(layout):
                s = layout[i]
                end = s['hoff'] + s['hlen']
                if 'coff' in s:
                    end = s['coff'] + s['clen']
                obs.count('position_at_yield_checked')
                if stream.tell() != end + offset:
                    # diagnostic: a reader may keep read-ahead in a buffer
                    # of its own instead of seeking back
                    obs.count('position_after_yield_ahead(diagnostic)')
    except Exception as e:
        exc = e
    f, pos, high = consumption(stream)
    fails.extend(f)
    obs.count('stream_events', len(stream.events))
    return recs, exc, fails


def shift_layout(layout, delta):
    out = []
    for i, s in enumerate(layout):
        s2 = dict(s)
        if i == 0:
            s2['hlen'] = s['hlen'] + delta
        else:
            s2['hoff'] = s['hoff'] + delta
            if 'coff' in s2:
                s2['coff'] = s['coff'] + delta
        out.append(s2)
    return out


def gen_file(rng):
    doc = recipe.gen_doc(rng, max_changes=2, max_files=3, enc_p=0.3)
    # long content lines
    for kind, sec, inh in recipe.iter_content(doc):
        if kind == 'preamble' and rng.random() < 0.5:
            codec = sec.get('encoding') or inh
            sec['text'] = ('L' * rng.choice([95, 96, 97, 191, 192, 193, 500])
                           + '\n' + sec['text'])
        if kind == 'diff' and rng.random() < 0.4:
            sec['data'] = b'+' + b'x' * rng.choice([94, 95, 96, 190, 400]) \
                + b'\n' + sec['data']
    longopt = rng.random() < 0.6

    def extra(index, sid, pairs):
        if longopt and index > 0 and rng.random() < 0.5:
            n = rng.choice([60, 80, 90, 95, 96, 97, 150, 190, 300, 600,
                            600, 4000, 4090, 4200, 9000])
            pairs = pairs + [('x-long', 'w' * n)]
        return pairs
    st = Style(rng=rng, extra=extra, blank=rng.choice([0, 0, 2]),
               crlf_headers=rng.random() < 0.2)
    return serialize(doc, st)


def check_file(data, layout, obs, rng, pads, sizes, real_file=False):
    base, exc, fails = read_with_positions(data, layout, obs)
    expected = expected_records(layout)
    case0 = {'file': data}
    if exc is not None or common.diff_records(expected, base):
        obs.count('base_file_skipped(reader disagrees with spec model)')
        return
    for f in fails:
        obs.violation('stream:%s:default' % f, case0)
        return
    ncontent = sum(1 for s in layout if 'coff' in s)
    # (1) paddings
    n = 0
    for pad in pads:
        padded, delta = pad_first_header(data, pad)
        if padded is None:
            continue
        recs, exc, fails = read_with_positions(
            padded, shift_layout(layout, delta), obs)
        n += 1
        obs.count('paddings_checked')
        obs.seen('header_offsets_mod_block',
                 (layout[-1]['hoff'] + delta) % BLOCK)
        case = {'file': data, 'padding': pad}
        if exc is not None:
            obs.violation('padding_changes_outcome:%s'
                          % common.exc_mechanism(exc), case, repr(exc)[:200])
            continue
        if recs:
            recs[0] = dict(recs[0], options={
                k: v for k, v in recs[0]['options'].items() if k != 'p'})
        d = common.diff_records(base, recs)
        if d is not None:
            obs.violation('padding_changes_records:%s' % d[0], case, d[1])
        for f in fails:
            obs.violation('stream:%s:padded' % f, case)
            break
    # (2) block sizes
    for size in sizes:
        restore = set_block(size)
        if restore is None:
            obs.count('block_size_handle_missing')
            break
        try:
            recs, exc, fails = read_with_positions(data, layout, obs)
        finally:
            restore()
        n += 1
        obs.count('block_sizes_checked')
        case = {'file': data, 'block_size': size}
        if exc is not None:
            obs.violation('block_size_changes_outcome:%s'
                          % common.exc_mechanism(exc), case, repr(exc)[:200])
            continue
        d = common.diff_records(base, recs)
        if d is not None:
            obs.violation('block_size_changes_records:%s' % d[0], case, d[1])
        for f in fails:
            obs.violation('stream:%s:block_size' % f, case)
            break
    # (2b) the document somewhere inside a longer stream
    for off in (1, 2, 95, 96, 97, 191, 4099, 8192):
        recs, exc, fails = read_with_positions(data, layout, obs, offset=off)
        n += 1
        obs.count('stream_offsets_checked')
        case = {'file': data, 'stream_offset': off}
        if exc is not None or common.diff_records(base, recs):
            obs.violation('stream_offset_changes_records', case,
                          repr(exc)[:200])
            break
        for f in fails:
            obs.violation('stream:%s:offset' % f, case)
            break
    # (2c) buffered streams with small buffers (peek(), short internal reads)
    import io as _io
    for bs in (16, 50, 96, 97, 128, 1000):
        ms = MonitoredStream(raw=_io.BufferedReader(_io.BytesIO(data),
                                                    buffer_size=bs))
        recs, exc, _f = read_with_positions(data, None, obs, ms)
        n += 1
        obs.count('buffered_stream_reads')
        if exc is not None or common.diff_records(base, recs):
            obs.violation('buffered_stream_differs',
                          {'file': data, 'buffer': bs}, repr(exc)[:200])
            break
    # (3) a real buffered file
    if real_file:
        d = os.path.join(env.OUT, 'tmp')
        os.makedirs(d, exist_ok=True)
        path = os.path.join(d, 'c17-%d.diffx' % os.getpid())
        with open(path, 'wb') as fh:
            fh.write(data)
        for buffering in (-1, 0, 17):
            with open(path, 'rb', buffering=buffering) as fh:
                ms = MonitoredStream(raw=fh)
                recs, exc, fails = read_with_positions(data, layout, obs, ms)
            obs.count('real_file_reads')
            n += 1
            if exc is not None or common.diff_records(base, recs):
                obs.violation('real_file_differs', {'file': data,
                                                    'buffering': buffering})
            for f in fails:
                obs.violation('stream:%s:real_file' % f, case0)
                break
        os.unlink(path)
        common.check_real_streams(data, obs, {'file': data,
                                              'real_streams': True},
                                  ('gzip', 'bz2', 'lzma'))
    obs.case(None, nontrivial=False, n=n)
    if ncontent >= 3:
        obs.distinct_by_construction(n)


def boundary_files(huge=()):
    """Files whose later headers straddle the internal buffer boundaries of
    buffered streams (4096 / 8192 / 16384) and files with one header longer
    than 8 KiB / 64 KiB."""
    out = []
    for B in (4096, 8192, 16384):
        for k in range(0, 40, 3):
            filler = B - k - 200
            doc = {'encoding': 'utf-8', 'changes': [{'encoding': None, 'files': [
                {'encoding': None,
                 'meta': {'obj': {'path': 'a'}, 'encoding': None},
                 'diff': {'data': (b'+' + b'f' * 62 + b'\n') * (filler // 64),
                          'encoding': None, 'line_endings': 'unix',
                          'type': None}},
                {'encoding': 'latin-1',
                 'meta': {'obj': {'path': 'b' * (k + 1)}, 'encoding': None},
                 'diff': {'data': b'-x\n', 'encoding': None,
                          'line_endings': 'unix', 'type': None}},
                {'encoding': None,
                 'meta': {'obj': {'path': 'c'}, 'encoding': None}}]}]}
            out.append(serialize(doc))
    for hl in (8000, 8190, 8200, 9000, 20000, 70000) + tuple(huge):
        def extra(index, sid, pairs, hl=hl):
            if index == 2:
                return pairs + [('x-long', 'w' * hl)]
            return pairs
        doc = {'encoding': 'utf-8', 'changes': [{'encoding': None, 'files': [
            {'encoding': None, 'meta': {'obj': {'p': 1}, 'encoding': None}},
            {'encoding': None, 'meta': {'obj': {'p': 2}, 'encoding': None}}]}]}
        out.append(serialize(doc, Style(extra=extra)))
    return out


def check_boundary_file(data, layout, obs, sizes):
    import io
    base, exc, fails = read_with_positions(data, layout, obs)
    expected = expected_records(layout)
    case0 = {'file': data}
    if exc is not None or common.diff_records(expected, base):
        obs.violation('boundary_file_misread:%s' % (
            common.exc_mechanism(exc) if exc else 'records'), case0)
        return
    n = 0
    # buffered streams of several buffer sizes (they offer peek())
    for bs in (512, 4096, 8192, 16384):
        ms = MonitoredStream(raw=io.BufferedReader(io.BytesIO(data),
                                                   buffer_size=bs))
        recs, exc, _ = read_with_positions(data, None, obs, ms)
        n += 1
        obs.count('buffered_stream_reads')
        if exc is not None or common.diff_records(base, recs):
            obs.violation('buffered_stream_differs', dict(case0, buffer=bs),
                          repr(exc)[:200])
            return
    d = os.path.join(env.OUT, 'tmp')
    os.makedirs(d, exist_ok=True)
    path = os.path.join(d, 'c17b-%d.diffx' % os.getpid())
    with open(path, 'wb') as fh:
        fh.write(data)
    for buffering in (-1, 4096, 0):
        with open(path, 'rb', buffering=buffering) as fh:
            recs, exc, _ = read_with_positions(data, None, obs,
                                               MonitoredStream(raw=fh))
        n += 1
        obs.count('real_file_reads')
        if exc is not None or common.diff_records(base, recs):
            obs.violation('real_file_differs', dict(case0,
                                                    buffering=buffering))
            break
    os.unlink(path)
    for size in sizes:
        restore = set_block(size)
        if restore is None:
            break
        try:
            recs, exc, fails = read_with_positions(data, layout, obs)
        finally:
            restore()
        n += 1
        obs.count('block_sizes_checked')
        if exc is not None or common.diff_records(base, recs):
            obs.violation('block_size_changes_outcome:%s' % (
                common.exc_mechanism(exc) if exc else 'records'),
                dict(case0, block_size=size))
            break
    obs.case(None, nontrivial=False, n=n)
    obs.distinct_by_construction(n)


def run(ctx):
    obs = ctx.obs
    rng = ctx.rng
    M = 1 << 20
    huge = (M + 70001,) if ctx.quick else (M - 1, M + 1, M + 70001, 2 * M + 5,
                                           5 * M + 3)
    for i, (data, layout) in enumerate(boundary_files(huge)):
        if ctx.mine(i):
            big = len(data) > 500000
            if big:
                obs.count('headers_longer_than_1MiB')
            check_boundary_file(data, layout, obs,
                                (64, 96, 4096, 10 ** 6, 10 ** 7) if big else
                                (1, 7, 64, 96, 100, 4096, 8192, 10 ** 6))
    nfiles = ctx.share(ctx.pick(64, 3000))
    pads = list(range(0, 2 * BLOCK + 1))
    sizes = list(range(1, 2 * BLOCK + 1)) + [1000, 10 ** 6]
    done = 0
    while done < nfiles:
        data, layout = gen_file(rng)
        if len(data) > 24000:
            continue
        done += 1
        check_file(data, layout, obs, rng, pads, sizes,
                   real_file=(done % 4 == 1))
        if done == 1 and ctx.index == 0:
            obs.sample({'file': data[:400], 'paddings': '0..192',
                        'block_sizes': '1..192, 1000, 1000000'})
    # read-ahead state belongs to one reader: several readers at work at
    # the same time (threads under a seeded schedule, interleaved generators)
    common.reader_concurrency_pass(
        ctx, lambda r: gen_file(r)[0], ctx.share(ctx.pick(100, 2500)))
    if obs.counters.get('block_size_handle_missing'):
        # no knob = the block size is not configurable in this tree: the
        # alignment sweep (every padding) is then all that can be observed
        obs.notes.append('no read-ahead block-size knob found on DiffXReader: '
                         'block-size sweep not applicable, alignment sweep '
                         'decides')
        obs.count('block_sizes_checked', 0)


def replay(case, obs):
    from mon.oracle import scanner
    if 'concurrent' in case or 'interleaved' in case:
        return common.replay_reader_concurrency(case, obs)
    if case.get('real_streams'):
        return common.check_real_streams(case['file'], obs, case)
    data = case['file']
    obs.case(None, nontrivial=False)
    base, exc, fails = read_with_positions(data, None, obs)
    if 'padding' in case:
        padded, delta = pad_first_header(data, case['padding'])
        recs, exc, fails = read_with_positions(padded, None, obs)
        if recs:
            recs[0] = dict(recs[0], options={
                k: v for k, v in recs[0]['options'].items() if k != 'p'})
        label = 'padding'
    elif 'block_size' in case:
        restore = set_block(case['block_size'])
        try:
            recs, exc, fails = read_with_positions(data, None, obs)
        finally:
            if restore:
                restore()
        label = 'block_size'
    else:
        recs, label = base, 'default'
    if exc is not None:
        obs.violation('%s_changes_outcome:%s' % (
            label, common.exc_mechanism(exc)), case, repr(exc))
        return
    d = common.diff_records(base, recs)
    if d is not None:
        obs.violation('%s_changes_records:%s' % (label, d[0]), case, d[1])
    for f in fails:
        obs.violation('stream:%s:%s' % (f, label), case)
        break
