"""C19 - typed attributes validate atomically; equality is structural."""
import copy
import random

from mon.gen import trees
from mon.oracle import treesnap
from mon.props import common

LEVEL = 'exploration'
RULE = ('(a) every typed attribute (own and forwarded; found by reflection '
        'over the section classes: every data descriptor that is not a '
        'structural slot) on every section kind x a pool of right-type, '
        'wrong-type and wrong-choice values (declared types / choices taken '
        'from the documentation): a valid value must be stored and readable '
        'and change nothing else, an invalid one must raise and leave the '
        'WHOLE tree snapshot unchanged; (b) unknown attribute names must be '
        'rejected by the constructors, add_change and add_file without '
        'changing the tree; (c) pairs of trees built independently (random '
        'assignment order) from one specification must be equal, serialise '
        'to identical bytes, == must agree with snapshot equality on '
        'unrelated pairs, and perturbing any single option or content of any '
        'section must make the trees unequal. Non-trivial = assignment of an '
        'invalid value, or a perturbation; distinct = fingerprint of (case '
        'kind, spec seed, attribute, value).')
RULE += (
         ' Also: str / int / bytes subclass instances, str- and int-mixin '
         'enum members and OrderedDict in the value pool (a stored value '
         'must be of the declared type and an allowed choice when read '
         'back); pairs of metadata that differ only in ways a serialised '
         'form hides ({1: x} vs {"1": x}, list vs tuple, 1 vs "1", NFC vs '
         'NFD) must make trees unequal. Process axes (DESIGN 2.8): 2 of 16 '
         'shards run under python -O, 4 of 16 after a hostile warm-up of the'
         ' library.')
FLOOR = {'quick': 15000, 'thorough': 400000}
REQUIRED_REACH = ['dom/properties.py:', 'dom/objects.py:']
REQUIRED_COUNTERS = ['constructor_keywords_rejected', 'valid_assignments', 'invalid_assignments_rejected',
                     'unknown_names_rejected', 'equal_pairs',
                     'perturbations_checked']
ASSUMPTIONS = [
    'bool is tolerated where int is declared (Python: bool is an int)',
    'Python equality (1 == 1.0 == True) is avoided by perturbing to values '
    'of a different denotation',
]

#: declared (type, choices) by attribute suffix - from the class docs
DECL = {
    'encoding': (str, None),
    'version': (str, {'1.0'}),
    'indent': (int, None),
    'line_endings': (str, {'unix', 'dos'}),
    'mimetype': (str, {'text/plain', 'text/markdown'}),
    'format': (str, {'json'}),
    'type': (str, {'text', 'binary'}),
    'preamble': (str, None),
    'meta': (dict, None),
    'diff': (bytes, None),
}
STRUCTURAL = {'options', 'section_id', 'subsections', 'changes', 'files',
              'meta_section', 'preamble_section', 'diff_section', '_level',
              '_content'}

POOL = [None, 0, 0.0, 4, 4.0, 5, 5.0, -1, 2.5, True, 1.0, 1, 'unix', 'dos', 'mac', 'text/plain',
        'text/html', 'json', 'yaml', 'text', 'binary', 'patch', '1.0', '2.0',
        'utf-8', 'UTF-16', 'Latin-1', 'nope', 'x-no-such-codec', '', 'x', b'', b'bytes\n', bytearray(b'x'), [], ['a'],
        {}, {'k': 'v'}, (), object, 1 << 70, 'é']


# values that ARE of the declared type without being of the exact built-in
# class: subclass instances, enum members with a str / int mix-in,
# OrderedDict. A stored value must still be "of the declared type and
# allowed choice" (checked on what is read back).
import collections
import enum


class StrSub(str):
    pass


class IntSub(int):
    pass


class BytesSub(bytes):
    pass


class LE(str, enum.Enum):
    UNIX = 'unix'
    DOS = 'dos'
    MAC = 'mac'


class Misc(str, enum.Enum):
    PLAIN = 'text/plain'
    HTML = 'text/html'
    JSON = 'json'
    BINARY = 'binary'
    V1 = '1.0'
    UTF8 = 'utf-8'


class Num(enum.IntEnum):
    FOUR = 4


POOL += [StrSub('unix'), StrSub('mac'), StrSub('json'), StrSub('binary'),
         StrSub('1.0'), StrSub('utf-8'), StrSub('text/plain'), StrSub(''),
         LE.UNIX, LE.DOS, LE.MAC, Misc.PLAIN, Misc.HTML, Misc.JSON,
         Misc.BINARY, Misc.V1, Misc.UTF8, IntSub(4), Num.FOUR,
         BytesSub(b'bytes\n'), collections.OrderedDict([('z', 1), ('a', 2)])]


def declared(owner_cls, attr):
    """(type, choices) for attribute ``attr`` of a section class."""
    name = attr
    for pre in ('preamble_', 'meta_', 'diff_'):
        if attr.startswith(pre):
            name = attr[len(pre):]
            sub = pre[:-1]
            break
    else:
        sub = None
    if name == 'content':
        dt = getattr(owner_cls, 'data_type', None)
        return (dt, None) if dt else None
    if name == 'type' and sub is None and attr == 'type':
        return DECL['type']
    return DECL.get(name)


def typed_attrs(cls):
    out = []
    for name in dir(cls):
        if name.startswith('_') or name in STRUCTURAL:
            continue
        for k in cls.__mro__:
            if name in k.__dict__:
                d = k.__dict__[name]
                if hasattr(type(d), '__set__') and hasattr(type(d),
                                                            '__get__'):
                    out.append(name)
                break
    return out


def sections_of(tree):
    out = [('DiffX', tree)]
    for s in (tree.preamble_section, tree.meta_section):
        out.append((type(s).__name__, s))
    for c in tree.changes:
        out.append(('DiffXChangeSection', c))
        out.append((type(c.preamble_section).__name__, c.preamble_section))
        for f in c.files:
            out.append(('DiffXFileSection', f))
            out.append((type(f.meta_section).__name__, f.meta_section))
            out.append((type(f.diff_section).__name__, f.diff_section))
    return out


def is_valid(decl, value):
    t, choices = decl
    if not isinstance(value, t):
        return False
    if choices and value not in choices:
        return False
    return True


def check_assignments(spec, seed, obs):
    rng = random.Random(seed)
    tree = trees.build(spec, rng)
    secs = sections_of(tree)
    seen_kinds = set()
    for kind, sec in secs:
        if kind in seen_kinds and rng.random() < 0.7:
            continue
        seen_kinds.add(kind)
        for attr in typed_attrs(type(sec)):
            decl = declared(type(sec), attr)
            if decl is None or decl[0] is None:
                obs.count('attrs_without_table_entry')
                obs.seen('attrs_without_table_entry', '%s.%s' % (kind, attr))
                continue
            obs.seen('typed_attributes', '%s.%s' % (kind, attr))
            for value in POOL:
                v = copy.deepcopy(value) if not isinstance(value, type) \
                    else value
                before = treesnap.snapshot(tree)
                exc = None
                try:
                    setattr(sec, attr, v)
                except Exception as e:
                    exc = e
                after = treesnap.snapshot(tree)
                case = {'spec': spec, 'build_seed': seed, 'section': kind,
                        'attribute': attr, 'value': repr(value)}
                valid = is_valid(decl, v)
                if decl[0] is int and isinstance(v, bool):
                    obs.count('tolerance:bool_for_int')
                    if exc is not None and not treesnap.equal(before, after):
                        obs.violation('rejected_assignment_changed_tree:%s'
                                      % attr, case)
                    continue
                if valid:
                    obs.case(('ok', seed, kind, attr, repr(value)),
                             nontrivial=False)
                    obs.count('valid_assignments')
                    if exc is not None:
                        obs.violation('valid_value_rejected:%s' % attr, case,
                                      repr(exc)[:200])
                        continue
                    got = getattr(sec, attr)
                    if got is not v and got != v:
                        obs.violation('valid_value_not_stored:%s' % attr,
                                      case, repr(got)[:100])
                    elif not is_valid(decl, got):
                        obs.violation('stored_value_not_of_declared_type_or_'
                                      'choice:%s' % attr, case,
                                      repr(got)[:100])
                    # only this one spot may differ
                    setattr(sec, attr, v)
                    if not treesnap.equal(after, treesnap.snapshot(tree)):
                        obs.violation('assignment_not_idempotent:%s' % attr,
                                      case)
                else:
                    obs.case(('bad', seed, kind, attr, repr(value)),
                             nontrivial=True)
                    if exc is None:
                        obs.violation('invalid_value_accepted:%s:%s' % (
                            attr, 'wrong_choice' if isinstance(v, decl[0])
                            else 'wrong_type'), case)
                        # undo so later checks see a sane tree
                        continue
                    obs.count('invalid_assignments_rejected')
                    if not treesnap.equal(before, after):
                        d = treesnap.first_diff(before, after)
                        obs.violation('rejected_assignment_changed_tree:%s'
                                      % attr, case, {'path': d[0],
                                                     'what': d[1]})


UNKNOWN = ['foo', 'encodings', 'Encoding', 'preamble_foo', 'meta_', 'diffs',
           'length', 'indent', 'line_endings', 'mimetype', 'format', 'type',
           'content', 'x-y', '', 'add_change2', 'preamble_section_']


def check_unknown_names(spec, seed, obs):
    from pydiffx.dom import DiffX
    rng = random.Random(seed)
    tree = trees.build(spec, rng)
    for name in UNKNOWN:
        targets = [('DiffX', DiffX, lambda **kw: DiffX(**kw)),
                   ('add_change', type(tree), tree.add_change)]
        if tree.changes:
            targets.append(('add_file', type(tree.changes[0]),
                            tree.changes[0].add_file))
        from pydiffx.dom.objects import (DiffXChangeSection,
                                         DiffXFileSection)
        owner = {'DiffX': DiffX, 'add_change': DiffXChangeSection,
                 'add_file': DiffXFileSection}
        for label, _, fn in targets:
            if name in dir(owner[label]):
                continue
            before = treesnap.snapshot(tree)
            exc = None
            try:
                fn(**{name: 'v'})
            except Exception as e:
                exc = e
            case = {'spec': spec, 'build_seed': seed, 'call': label,
                    'name': name}
            obs.case(('unk', seed, label, name), nontrivial=True)
            if exc is None:
                obs.violation('unknown_attribute_accepted:%s' % label, case)
                continue
            obs.count('unknown_names_rejected')
            if not treesnap.equal(before, treesnap.snapshot(tree)):
                obs.violation('rejected_unknown_attribute_changed_tree:%s'
                              % label, case)


CTOR_BAD = [None, 5, 2.5, b'x', 'nope-choice', [], {}, ()]


def check_constructor_kwargs(spec, seed, obs):
    """Keyword attributes of the constructors / add_change / add_file are
    typed assignments too: an invalid value (incl. None) or an unknown name
    (whatever its value) must raise and must not add anything to the tree.
    """
    from pydiffx.dom import DiffX
    from pydiffx.dom.objects import DiffXChangeSection, DiffXFileSection
    rng = random.Random(seed)
    tree = trees.build(spec, rng)
    if not tree.changes:
        tree.add_change()
    entries = [('DiffX', DiffX, lambda **kw: DiffX(**kw)),
               ('add_change', DiffXChangeSection, tree.add_change),
               ('add_file', DiffXFileSection, tree.changes[0].add_file)]
    for label, cls, fn in entries:
        cands = []
        for attr in typed_attrs(cls):
            decl = declared(cls, attr)
            if decl is None or decl[0] is None:
                continue
            for v in CTOR_BAD:
                if decl[0] is int and isinstance(v, bool):
                    continue
                if not is_valid(decl, v):
                    cands.append((attr, v))
        for name in UNKNOWN:
            if name and name not in dir(cls) and name.isidentifier():
                cands.append((name, None))
                cands.append((name, 'v'))
        # names of internal state (slots) are not options or content
        # sections either
        for k in cls.__mro__:
            sl = k.__dict__.get('__slots__', ())
            for name in ([sl] if isinstance(sl, str) else sl):
                if not name.startswith('__'):
                    cands.append((name, 'v'))
                    cands.append((name, []))
        for attr, v in cands:
            before = treesnap.snapshot(tree)
            exc = None
            try:
                fn(**{attr: copy.deepcopy(v)})
            except Exception as e:
                exc = e
            case = {'spec': spec, 'build_seed': seed, 'ctor': label,
                    'attribute': attr, 'value': repr(v)}
            obs.case(('ctor', seed, label, attr, repr(v)), nontrivial=True)
            if exc is None:
                obs.violation('constructor_accepted_invalid_keyword:%s:%s' % (
                    label, 'None' if v is None else 'value'), case)
                # keep going with a fresh tree: this one was modified
                tree = trees.build(spec, random.Random(seed))
                if not tree.changes:
                    tree.add_change()
                return
            obs.count('constructor_keywords_rejected')
            if not treesnap.equal(before, treesnap.snapshot(tree)):
                obs.violation('rejected_constructor_keyword_changed_tree:%s'
                              % label, case)
                return


def perturbations(value):
    """Same-type values with a different denotation, in several styles (a
    final newline more / less, other newline kind, case, leading space ...).
    """
    out = [perturb(value)]
    if isinstance(value, str):
        out += [value + '\n', value + '\r\n', ' ' + value, value.upper()
                if value.upper() != value else value.lower()]
        if value.endswith('\n'):
            out += [value[:-1], value[:-1] + '\r\n', value + '\n']
    elif isinstance(value, bytes):
        out += [value + b'\n', b' ' + value]
        if value.endswith(b'\n'):
            out += [value[:-1], value + b'\n']
    elif isinstance(value, dict):
        for k in list(value)[:2]:
            d = copy.deepcopy(value)
            del d[k]
            out.append(d)
            d2 = copy.deepcopy(value)
            d2[k] = [d2[k], 'Z']
            out.append(d2)
    return [v for v in out if v != value]


META_PAIRS = [
    ({'k': [1, 2]}, {'k': (1, 2)}), ({1: 'x'}, {'1': 'x'}),
    ({'k': 1}, {'k': '1'}), ({'k': True}, {'k': 'true'}),
    ({'k': None}, {'k': 'null'}), ({'k': 1.5}, {'k': '1.5'}),
    ({'k': {'n': 7}}, {'k': {'n': '7'}}), ({'k': 'a'}, {'k': b'a'}),
    ({'k': ''}, {'k': None}), ({'k': []}, {'k': {}}),
    ({'k': 'e\u0301'}, {'k': '\xe9'}), ({'a': 1, 'b': 2}, {'a': 1, 'B': 2}),
]


def perturb(value):
    if isinstance(value, bool):
        return 'changed'
    if isinstance(value, int):
        return value + 7
    if isinstance(value, str):
        return value + 'Z'
    if isinstance(value, bytes):
        return value + b'Z'
    if isinstance(value, dict):
        d = copy.deepcopy(value)
        d['__perturbed__'] = 'Z'
        return d
    if value is None:
        return 'Z'
    return ['Z', value]


def check_equality(spec, seed, obs, other_tree=None):
    rng = random.Random(seed)
    a = trees.build(spec, random.Random(seed))
    if seed % 4 == 0:
        # the same shape reached differently: built in the other order,
        # then its public lists reversed in place
        b = trees.build(trees.reversed_spec(spec), random.Random(seed + 1))
        trees.reverse_in_place(b)
        obs.count('equal_pairs_one_with_lists_edited_in_place')
    else:
        b = trees.build(spec, random.Random(seed + 1))
    case = {'spec': spec, 'build_seed': seed}
    obs.case(('eq', seed), nontrivial=False)
    obs.count('equal_pairs')
    if not (a == b) or (a != b):
        obs.violation('equal_by_construction_but_unequal', case)
        return
    if not (b == a):
        obs.violation('equality_not_symmetric', case)
    try:
        ba = a.to_bytes()
        repr(a)
        # b is still untouched: observing a must not end their equality
        if not (a == b):
            obs.violation('observed_tree_differs_from_untouched_twin', case)
            return
        bb = b.to_bytes()
        if ba != bb:
            obs.violation('equal_trees_different_bytes', case)
    except Exception:
        obs.count('equal_pair_unserialisable')
    if other_tree is not None:
        sa, so = treesnap.snapshot(a), treesnap.snapshot(other_tree)
        obs.count('unrelated_pairs')
        if (sa == so) != (a == other_tree):
            obs.violation('eq_disagrees_with_snapshot_equality', case,
                          {'snapshots_equal': sa == so})
    # single-field perturbations of b
    secs = sections_of(b)
    for idx, (kind, sec) in enumerate(secs):
        fields = [('option', k) for k in list(sec.options)]
        if hasattr(sec, 'content'):
            fields.append(('content', None))
        fields.extend(('del_option', k) for k in list(sec.options))
        # also an option that is absent on both
        fields.append(('new_option', 'x-extra'))
        for what, key in fields:
            saved_opts = dict(sec.options)
            saved_content = getattr(sec, '_content', None) \
                if hasattr(sec, 'content') else None
            if what == 'option':
                sec.options[key] = perturb(sec.options[key])
            elif what == 'del_option':
                del sec.options[key]
            elif what == 'new_option':
                sec.options[key] = 'Z'
            else:
                # through the public setter when the perturbed value keeps
                # the declared type; the private slot is only a fallback for
                # sections without content
                saved_public = sec.content
                try:
                    if saved_public is not None:
                        # every style in turn; the last one stays for the
                        # generic check below
                        styles = perturbations(saved_public)
                        for pv in styles[1:]:
                            sec.content = pv
                            obs.count('perturbations_checked')
                            if a == b or not (a != b):
                                obs.violation(
                                    'perturbation_leaves_trees_equal:%s:'
                                    'content_style' % kind,
                                    dict(case, section_index=idx),
                                    {'from': repr(saved_public)[:80],
                                     'to': repr(pv)[:80]})
                        sec.content = styles[0]
                    else:
                        sec.content = {str: 'Z', bytes: b'Z',
                                       dict: {'Z': 1}}[type(sec).data_type]
                        if not hasattr(type(sec), '_content') and \
                                '_content' not in getattr(type(sec),
                                                          '__slots__', ()):
                            pass
                except Exception:
                    continue
            obs.case(('pert', seed, idx, what, key), nontrivial=True)
            obs.count('perturbations_checked')
            if a == b or not (a != b):
                obs.violation('perturbation_leaves_trees_equal:%s:%s' % (
                    kind, what), dict(case, section_index=idx, field=key))
            # restore
            sec.options.clear()
            sec.options.update(saved_opts)
            if what == 'content':
                if saved_public is not None:
                    sec.content = saved_public
                else:
                    try:
                        object.__setattr__(sec, '_content', saved_content)
                    except Exception:
                        # cannot restore "no content" through the public
                        # API: stop perturbing this pair
                        obs.count('perturbation_pair_abandoned(no restore)')
                        return
        if not (a == b):
            obs.violation('restore_failed(harness)', case)
            return
    # content that differs only in ways a serialised form would hide
    secs_a = sections_of(a)
    for idx, (kind, sec) in enumerate(secs):
        if getattr(type(sec), 'data_type', None) is not dict:
            continue
        sa = secs_a[idx][1]
        keep_a, keep_b = sa.content, sec.content
        for va, vb in META_PAIRS:
            try:
                sa.content = copy.deepcopy(va)
                sec.content = copy.deepcopy(vb)
            except Exception:
                continue
            obs.count('perturbations_checked')
            obs.case(('pair', seed, idx, repr(va)), nontrivial=True)
            if a == b or not (a != b) or b == a:
                obs.violation('perturbation_leaves_trees_equal:%s:'
                              'content_denotation' % kind,
                              dict(case, section_index=idx),
                              {'a': repr(va), 'b': repr(vb)})
        try:
            if keep_a is not None:
                sa.content = keep_a
                sec.content = keep_b
            else:
                object.__setattr__(sa, '_content', None)
                object.__setattr__(sec, '_content', None)
        except Exception:
            return
        break
    if not (a == b):
        # could not restore through the public API
        obs.count('perturbation_pair_abandoned(no restore)')
        return
    # structural perturbations
    if b.changes:
        extra = b.add_change()
        obs.count('perturbations_checked')
        if a == b:
            obs.violation('perturbation_leaves_trees_equal:extra_change',
                          case)
        b.changes.remove(extra)
        if b.changes and b.changes[0].files:
            f = b.changes[0].files.pop()
            obs.count('perturbations_checked')
            if a == b:
                obs.violation('perturbation_leaves_trees_equal:missing_file',
                              case)
            b.changes[0].files.append(f)
        if len(b.changes) >= 2 and not (b.changes[0] == b.changes[1]):
            b.changes[0], b.changes[1] = b.changes[1], b.changes[0]
            obs.count('perturbations_checked')
            if a == b:
                obs.violation(
                    'perturbation_leaves_trees_equal:changes_reordered', case)


def run(ctx):
    obs = ctx.obs
    rng = ctx.rng
    na = ctx.share(ctx.pick(64, 2000))
    for k in range(na):
        spec = trees.gen_tree(rng, 2, 2)
        seed = rng.randrange(1 << 30)
        check_assignments(spec, seed, obs)
        check_unknown_names(spec, seed, obs)
        check_constructor_kwargs(spec, seed, obs)
        if k == 0 and ctx.index == 0:
            obs.sample({'assignment': ['DiffXPreambleSection', 'indent',
                                       "'x'"], 'expect': 'raises, tree '
                        'unchanged'})
    prev = None
    for k in range(ctx.share(ctx.pick(800, 30000))):
        spec = trees.gen_tree(rng, 3, 3)
        seed = rng.randrange(1 << 30)
        check_equality(spec, seed, obs, prev)
        prev = trees.build(spec, random.Random(seed))


def replay(case, obs):
    spec, seed = case['spec'], case['build_seed']
    if 'ctor' in case:
        check_constructor_kwargs(spec, seed, obs)
    elif 'attribute' in case:
        check_assignments(spec, seed, obs)
    elif 'call' in case:
        check_unknown_names(spec, seed, obs)
    else:
        check_equality(spec, seed, obs)
