"""C02 - writer output is spec-conformant and canonical."""
from mon.gen import recipe, texts
from mon.monitor.streams import MonitoredStream, check_append_only
from mon.oracle import jsoncanon, scanner
from mon.oracle.serializer import serialize
from mon.props import common
from mon.props.c01 import sweep_cases, sweep_doc, special_docs

LEVEL = 'exploration'
RULE = ('same recipe generator and systematic sweep as C01, plus JSON stress '
        '(deep nesting, shuffled key order, non-ASCII keys) and an '
        'explicit-vs-inherited encoding sweep; the bytes written by the real '
        'DiffXWriter are compared byte-for-byte with the independent spec '
        'serializer and walked by an independent conformance scanner. '
        'Non-trivial = at least one content section; distinct = recipe '
        'fingerprint.')
RULE += (
         ' Also: every third case is repeated with exotic-but-equivalent '
         'argument objects (str/bytes/int subclass instances, OrderedDict / '
         'dict subclasses with shuffled insertion order, tuples) and must '
         'give identical bytes; groups of 2-4 independent writers run in '
         'threads under the seeded baton scheduler and must each write what '
         'they write alone. Process axes (DESIGN 2.8): 2 of 16 shards run '
         'under python -O, 4 of 16 after a hostile warm-up of the library.')
FLOOR = {'quick': 2000, 'thorough': 50000}
REQUIRED_REACH = ['writer.py:']
ASSUMPTIONS = [
    'oracle serializer + scanner are faithful readings of docs/spec '
    '(section-format.rst, sections.rst, encodings.rst)',
    'JSON string-escape style and number spelling are compared by '
    'denotation when the bytes differ (tolerance, counted)',
]


def check_case(doc, obs, tag='random'):
    calls = recipe.writer_calls(doc)
    stream = MonitoredStream()
    try:
        recipe.run_writer(calls, stream)
    except Exception as e:
        obs.case(None, nontrivial=False)
        obs.violation('writer_rejected_well_ordered_calls:%s'
                      % common.exc_mechanism(e), doc, repr(e))
        return
    data = stream.getvalue()
    want, layout = serialize(doc)
    obs.case(doc, nontrivial=any(s['kind'] != 'container' for s in layout))
    obs.count('case:%s' % tag)
    obs.count('bytes_compared', len(data))
    for f in check_append_only(stream):
        obs.violation('writer_stream:%s' % f, doc)
        break
    secs, problems = scanner.scan(data, canonical=True)
    obs.count('sections_scanned', len(secs))
    for name, where in problems:
        obs.violation('nonconformant:%s' % name, doc,
                      {'offset': where, 'around': data[max(0, where - 10):
                                                       where + 120]})
        break
    check_exotic_arguments(doc, calls, data, obs)
    if data == want:
        obs.count('byte_identical')
        return
    # attribute the difference
    mech, detail = common.attribute(data, want, secs, layout)
    if mech is None:
        obs.count('tolerance:json_spelling')
        return
    obs.violation('noncanonical:%s' % mech, doc, detail)


def check_exotic_arguments(doc, calls, data, obs):
    """The same calls with subclass instances / OrderedDicts / tuples as
    arguments (see recipe.exotic_calls) must give the same bytes."""
    import random
    from mon.core import fingerprint
    seed = fingerprint(repr(calls)) & 0xffffffff
    if seed % 3:
        return
    ex = recipe.exotic_calls(calls, random.Random(seed))
    stream = MonitoredStream()
    obs.count('exotic_argument_runs')
    try:
        recipe.run_writer(ex, stream)
    except Exception as e:
        obs.violation('exotic_arguments:writer_rejected:%s'
                      % common.exc_mechanism(e), doc, repr(e)[:200])
        return
    if stream.getvalue() != data:
        got = stream.getvalue()
        i = next((j for j in range(min(len(got), len(data)))
                  if got[j] != data[j]), min(len(got), len(data)))
        obs.violation('exotic_arguments:bytes_depend_on_argument_class', doc,
                      {'offset': i, 'plain': data[max(0, i - 40):i + 60],
                       'exotic': got[max(0, i - 40):i + 60],
                       'exotic_seed': seed})


def stress_doc(rng):
    """JSON stress + explicit/inherited encoding for the same codec."""
    codec = rng.choice(['utf-8', 'utf-16', 'utf-32-le', 'latin-1', 'cp037',
                        'shift_jis'])
    obj = texts.json_object(rng)
    deep = obj
    for _ in range(rng.randint(0, 6)):
        deep = {rng.choice(texts.JSON_KEYS): deep,
                rng.choice(texts.JSON_KEYS): [deep, texts.json_value(rng)]}
    keys = list(deep.keys())
    rng.shuffle(keys)
    deep = {k: deep[k] for k in keys}
    where = rng.choice(['main', 'change', 'file', 'own'])
    doc = {'encoding': codec if where == 'main' else 'utf-8', 'changes': [{
        'encoding': codec if where == 'change' else None,
        'files': [{'encoding': codec if where == 'file' else None,
                   'meta': {'obj': deep,
                            'encoding': codec if where == 'own' else None}}],
    }]}
    return doc


def run(ctx):
    obs = ctx.obs
    rng = ctx.rng
    for i, d in enumerate(special_docs()):
        if ctx.mine(i):
            check_case(d, obs, 'special_sizes')
    sw = sweep_cases()
    stride = ctx.pick(3, 1)
    for i, (codec, indent, le, t) in enumerate(sw):
        if not ctx.mine(i):
            continue
        for j, via in enumerate(('own', 'change', 'main')):
            if (i + j) % stride:
                continue
            check_case(sweep_doc(codec, indent, le, t, via), obs, 'sweep')
    n = ctx.share(ctx.pick(16000, 500000))
    for k in range(n):
        doc = recipe.gen_doc(rng)
        check_case(doc, obs)
        if k < 2 and ctx.index == 0:
            obs.sample({'recipe': doc})
    for k in range(ctx.share(ctx.pick(4000, 100000))):
        check_case(stress_doc(rng), obs, 'json_stress')
    concurrent_pass(ctx, ctx.share(ctx.pick(160, 4000)))
    # codec-name spellings: every spelling of the BOM-emitting codecs and a
    # sample of the others (the spelling question itself is C15's)
    from mon.gen import codecs_cat
    items = []
    for canon in sorted(codecs_cat.catalogue()):
        sps = codecs_cat.spellings(canon)
        if not ''.encode(canon):
            sps = sps[:1] + rng.sample(sps[1:], min(len(sps) - 1,
                                                    ctx.pick(2, 8)))
        items.extend((canon, sp) for sp in sps)
    for i, (canon, sp) in enumerate(items):
        if not ctx.mine(i):
            continue
        t = texts.restrict(rng.choice(['no final newline', 'a\nb\n',
                                       'd\r\ne\r\n', '\ufeffx\n']), canon)
        via = ('own', 'change', 'main')[i % 3]
        check_case(sweep_doc(sp, rng.choice([None, 0, 4]),
                             rng.choice([None, 'unix', 'dos']), t, via),
                   obs, 'spelling')


def writer_thunk(doc):
    def thunk():
        stream = MonitoredStream()
        recipe.run_writer(recipe.writer_calls(doc), stream)
        return stream.getvalue()
    return thunk


def concurrent_pass(ctx, n_groups):
    """Independent writers at work in several threads (seeded schedule)."""
    rng = ctx.rng
    for _ in range(n_groups):
        docs = [recipe.gen_doc(rng) for _ in range(rng.randint(2, 4))]
        ctx.obs.case(('concurrent', docs))
        common.check_concurrent(ctx.obs, rng, docs, writer_thunk, 'writers')


def replay(case, obs):
    if 'concurrent' in case:
        return common.replay_concurrent(case, obs, writer_thunk)
    check_case(case, obs, 'replay')
