"""C07 - length framing under truncation and bad lengths."""
import re

from mon.gen import recipe
from mon.oracle.serializer import serialize, expected_records, Style
from mon.props import common

LEVEL = 'fault_enumeration'
RULE = ('fault enumeration: for each base file (spec-serialized random '
        'recipes incl. indented multi-byte preambles, header look-alike '
        'content, foreign layouts) EVERY truncation point 0..len(file) is '
        'read with the real DiffXReader over an instrumented stream and the '
        'records obtained before it stops must be a prefix of the intact '
        "file's records, followed by normal end or DiffXParseError; in "
        'addition every content section gets its length perturbed by '
        '+-1..8 and replaced by negative / non-numeric / huge values. '
        'Non-trivial = the cut (or perturbation) lies after the first '
        'content header; distinct = (file fingerprint, cut) by construction.')
RULE += (
         ' Also: sections of 9 MiB and more (cuts around their boundaries), '
         'and intact / cut files read through real files and gzip / bz2 / xz'
         ' streams must give what the same bytes give from memory. Process '
         'axes (DESIGN 2.8): 2 of 16 shards run under python -O, 4 of 16 '
         'after a hostile warm-up of the library.')
FLOOR = {'quick': 50000, 'thorough': 1000000}
REQUIRED_REACH = ['reader.py:']
REQUIRED_COUNTERS = ['exact_byte_count_checked', 'cut:in_header', 'cut:in_content', 'cut:at_boundary',
                     'cut:content_after_newline', 'length_perturbations']
ASSUMPTIONS = [
    'intact records are those of the spec serializer layout; a base file is '
    'only used when the real reader agrees with them on the intact file',
    'a length that is merely wrong but within the data present cannot be '
    'detected by any reader: only "no foreign exception, earlier records '
    'intact" is demanded there',
]

BAD_LENGTHS = [b'-1', b'-0', b'0', b'-7', b'abc', b'1.5', b'1e3', b'0x10',
               b'9' * 30, b'9' * 5000, b'1_0', b'007', b'/']


HUGE = [b'2147483647', b'2147483648', b'4294967295', b'4294967296',
        b'9223372036854775807', b'9223372036854775808',
        b'18446744073709551616']


def same(a, b):
    return common.diff_records([a], [b]) is None


def classify_cut(layout, c, total):
    sec = None
    for s in layout:
        if s['hoff'] <= c:
            sec = s
    if sec is None:
        return 'at_boundary'
    if c == sec['hoff']:
        return 'at_boundary'
    if c < sec['hoff'] + sec['hlen']:
        return 'in_header'
    if 'coff' not in sec:
        return 'at_boundary'
    if c == sec['coff']:
        return 'after_content_header'
    if c >= sec['coff'] + sec['clen']:
        return 'at_boundary' if c == sec['coff'] + sec['clen'] else 'blank'
    nl = sec['nl']
    raw_before = c - sec['coff']
    return ('content_after_newline', 'in_content', sec, raw_before)


def framing_fails(data, positions):
    """Independent framing walk: a yielded content section must have
    consumed exactly its declared number of bytes. ``positions`` are the
    stream positions observed right after each yield."""
    from mon.oracle import scanner
    secs, problems = scanner.scan(data)
    out = []
    for i, pos in enumerate(positions):
        if i >= len(secs):
            break
        s = secs[i]
        if 'coff' in s and isinstance(s['options'].get('length'), int) \
                and s['options']['length'] >= 0:
            declared_end = s['coff'] + s['options']['length']
            if pos != min(declared_end, len(data)):
                out.append((i, s['id'], pos, declared_end))
                break
    return out


def run_reader_positions(data):
    """Like read_records, but also the stream position after each yield."""
    from pydiffx.reader import DiffXReader
    from mon.monitor.streams import MonitoredStream
    stream = MonitoredStream(data)
    recs, pos, exc = [], [], None
    try:
        for r in DiffXReader(stream):
            recs.append(common.project(r))
            pos.append(stream.tell())
    except Exception as e:
        exc = e
    return recs, pos, exc


def run_reader(data, coffs=None):
    """(records, exception, [], []) - the last two are kept for call
    compatibility; whether data was short of the declared length is known by
    construction of each case (see ``short_flags``), not from stream events,
    so that readers which buffer read-ahead themselves are judged alike."""
    recs, exc, stream = common.read_records(data)
    return recs, exc, [], []


def short_flags(layout, present_len, override=None):
    """For each section: are fewer content bytes present than its header
    declares? ``override`` = (index, declared_length, content_offset) for a
    perturbed header."""
    out = []
    for i, s in enumerate(layout):
        if 'coff' not in s:
            out.append(False)
            continue
        coff, declared = s['coff'], s['clen']
        if override is not None and override[0] == i:
            declared, coff = override[1], override[2]
        elif override is not None and i > override[0]:
            coff = coff + override[3]
        avail = max(0, present_len - coff)
        out.append(isinstance(declared, int) and declared > avail)
    return out


def expected_from_slice(sec, raw):
    """What a reader must return for a content section whose content bytes
    are ``raw`` (spec reading: split on the declared newline, strip up to
    ``indent`` spaces per line, decode). Returns (ok, value); ok False =
    "must be rejected" (no final newline / undecodable / not JSON)."""
    import json
    from mon.oracle.splitter import scan_split
    nl = sec['nl']
    codec = sec.get('codec')
    if not raw:
        return False, None
    if sec['kind'] == 'diff':
        return (True, raw) if raw.endswith(nl) else (False, None)
    body = raw
    indent = sec['options'].get('indent')
    if sec['kind'] == 'preamble' and isinstance(indent, int) and indent > 0:
        lines = []
        for ln in scan_split(raw, nl):
            k = 0
            while k < indent and ln[k:k + 1] == b' ':
                k += 1
            lines.append(ln[k:])
        body = b''.join(lines)
    # the final-newline rule is applied to the un-indented content (a slice
    # that ends inside the indentation of its next line is still complete)
    if not body.endswith(nl):
        return False, None
    if codec is None:
        text = body
    else:
        try:
            text = body.decode(codec)
        except UnicodeError:
            return False, None
    if sec['kind'] == 'meta':
        try:
            return True, json.loads(text)
        except (ValueError, RecursionError):
            return False, None
    return True, text


def ends_in_newline(content, rec):
    if isinstance(content, str):
        return content.endswith('\n')
    from mon.oracle.newline import newline_bytes
    codec = rec['options'].get('encoding')
    if not isinstance(codec, str):
        codec = None
    try:
        return content.endswith(newline_bytes('unix', codec))
    except Exception:
        return content.endswith(b'\n')


def f8a_shape(present, nl, indent):
    """Is ``present`` (the content bytes that survived the cut) of the one
    shape the unedited suite forces the reader to accept: it ends with the
    section's own line ending, optionally followed by at most ``indent``
    spaces of the next line's indentation?"""
    if not present or not nl:
        return False
    k = present.rfind(nl)
    if k < 0:
        return False
    tail = present[k + len(nl):]
    if tail == b'':
        return True
    return (isinstance(indent, int) and indent > 0 and
            len(tail) <= indent and tail.strip(b' ') == b'')


def judge(recs, exc, short, neg, intact, case, obs, label, shape=None,
          swallow=None):
    """Prefix relation + error family."""
    if exc is not None and not common.is_parse_error(exc):
        obs.violation('%s:non_parse_exception:%s' % (
            label, common.exc_mechanism(exc)), case, repr(exc))
        return False
    if len(recs) > len(intact):
        obs.violation('%s:extra_records' % label, case)
        return False
    for i, r in enumerate(recs):
        if same(intact[i], r):
            continue
        d = common.diff_records([intact[i]], [r])
        kind = intact[i]['section'].lstrip('.')
        if short and i < len(short) and short[i]:
            content_key = [k for k in common.CONTENT if k in r]
            rel = 'other'
            if content_key:
                a, b = intact[i][content_key[0]], r[content_key[0]]
                if common.strict_equal(a, b):
                    rel = 'content_complete'
                elif swallow is not None and swallow[0] == i and \
                        common.strict_equal(b, swallow[1]):
                    # F8c: everything up to the end of the file was taken
                    # as this section's content
                    rel = 'content_is_rest_of_file'
                elif (isinstance(a, (bytes, str)) and type(a) is type(b) and
                      a.startswith(b)):
                    # F8a is specifically a cut that leaves content ENDING in
                    # a line ending; content cut in mid-line must never pass
                    ok_shape = shape[i] if shape is not None and \
                        i < len(shape) else ends_in_newline(b, intact[i])
                    rel = ('content_is_proper_prefix' if ok_shape
                           else 'content_cut_mid_line')
            mech = '%s:altered_section_yielded:short_read_accepted:%s:%s' % (
                label, kind, rel)
        elif neg:
            mech = '%s:altered_section_yielded:negative_length_reads_rest' \
                % label
        else:
            mech = '%s:altered_section_yielded:%s' % (label, d[0])
        obs.violation(mech, case, {'index': i, 'diff': d})
        return False
    return True


def check_file(data, layout, obs, tag, rng=None, cut_stride=1):
    intact = expected_records(layout)
    recs, exc, short, neg = run_reader(data)
    if exc is not None or common.diff_records(intact, recs) is not None:
        # (the same document is read from stream position 0 and from inside
        # a longer stream, see common.read_records)
        obs.violation('intact_file_misread:%s' % (
            common.exc_mechanism(exc) if exc is not None else 'records'),
            {'file': data}, repr(exc)[:200])
        return
    obs.count('base_files')
    fid = common_fid(data)
    if fid % 4 == 0:
        # the same file, and the same file cut short, through real streams
        kinds = common.STREAM_KINDS if fid % 8 == 0 else ('gzip', 'file')
        if common.check_real_streams(data, obs, {'file': data,
                                                 'real_streams': True},
                                     kinds):
            for c in sorted(set([len(data) - 1, len(data) // 2,
                                 (fid >> 8) % (len(data) + 1)])):
                common.check_real_streams(
                    data[:c], obs, {'file': data[:c], 'real_streams': True},
                    ('gzip', 'file_unbuffered'))
    first_content = next((s['hoff'] for s in layout if 'coff' in s),
                         len(data))
    n = 0
    for c in range(0, len(data) + 1, cut_stride):
        recs, exc, _s, _n = run_reader(data[:c])
        short, neg = short_flags(layout, c), False
        cls = classify_cut(layout, c, len(data))
        if isinstance(cls, tuple):
            _, _, sec, off = cls
            raw = data[sec['coff']:sec['coff'] + off]
            if raw.endswith(sec['nl']):
                cls = 'content_after_newline'
            elif (sec['kind'] == 'preamble' and
                  re.search(br'(^|\n) +$', raw[-20:])):
                cls = 'in_indent'
            else:
                cls = 'in_content'
        obs.count('cut:%s' % cls)
        n += 1
        shape = []
        for s in layout:
            if 'coff' in s and s['coff'] < c < s['coff'] + s['clen']:
                shape.append(f8a_shape(data[s['coff']:c], s.get('nl'),
                                       s['options'].get('indent')))
            else:
                shape.append(False)
        ok = judge(recs, exc, short, neg, intact, {'file': data, 'cut': c},
                   obs, 'truncation', shape)
        if ok:
            obs.count('outcome:%s' % ('parse_error' if exc else 'normal_end'))
    obs.case(None, nontrivial=False, n=n)
    obs.distinct_by_construction(max(0, len(data) + 1 - first_content)
                                 // cut_stride)
    # length perturbations
    for idx, sec in enumerate(layout):
        if 'coff' not in sec:
            continue
        header = data[sec['hoff']:sec['hoff'] + sec['hlen']]
        is_last = idx == len(layout) - 1
        variants = []
        for d in (1, 2, 3, 4, 5, 6, 7, 8):
            variants.append((b'%d' % (sec['clen'] + d), 'plus'))
            if sec['clen'] - d >= 0:
                variants.append((b'%d' % (sec['clen'] - d), 'minus'))
        for b in BAD_LENGTHS:
            variants.append((b, 'bad'))
        if b'indent=' in header:
            # damage that hits two fields with the same value
            for b in HUGE:
                variants.append((b, 'pair'))
        for b in HUGE:
            variants.append((b, 'huge'))
        for val, vkind in variants:
            new_header = re.sub(br'length=[^,\r\n]+', b'length=' + val,
                                header, count=1)
            if vkind == 'pair':
                # outside the property's damage model (two fields hit): the
                # only demand is the error family
                new_header = re.sub(br'indent=[^,\r\n]+', b'indent=' + val,
                                    new_header, count=1)
                mutated = (data[:sec['hoff']] + new_header +
                           data[sec['coff']:])
                recs, exc, _s, _n = run_reader(mutated)
                obs.count('length_perturbations')
                obs.count('length:pair_with_indent')
                obs.case((fid, idx, val, 'pair'), nontrivial=True)
                if exc is not None and not common.is_parse_error(exc):
                    obs.violation('length_and_indent_damaged:non_parse_'
                                  'exception:%s' % common.exc_mechanism(exc),
                                  {'file': mutated}, repr(exc)[:200])
                continue
            if vkind == 'huge':
                # a non-negative integer far beyond the data present
                mutated = (data[:sec['hoff']] + new_header +
                           data[sec['coff']:])
                delta = len(new_header) - len(header)
                recs, exc, _s, _n = run_reader(mutated)
                obs.count('length_perturbations')
                obs.count('length:huge')
                obs.case((fid, idx, val, 'huge'), nontrivial=True)
                short = [False] * len(layout)
                short[idx] = True
                rest = mutated[sec['coff'] + delta:]
                ok_rest, want_rest = expected_from_slice(sec, rest)
                case = {'file': data, 'section_index': idx, 'length': val,
                        'label': 'length_exceeds_data', 'strong': True}
                judge(recs, exc, short, False, intact, case, obs,
                      'length_plus' if is_last else 'length_exceeds_data',
                      swallow=(idx, want_rest) if ok_rest and not is_last
                      else None)
                continue
            mutated = (data[:sec['hoff']] + new_header +
                       data[sec['coff']:])
            delta = len(new_header) - len(header)
            recs, exc, _s, _n = run_reader(mutated)
            try:
                declared = int(val) if len(val) < 4000 else None
            except ValueError:
                declared = None
            neg = declared is not None and declared < 0
            short = short_flags(layout, len(mutated),
                                (idx, declared, sec['coff'] + delta, delta))
            obs.count('length_perturbations')
            obs.count('length:%s' % vkind)
            strong = vkind == 'bad' or (vkind == 'plus' and is_last)
            if val in (b'-0', b'0', b'007', b'1_0'):
                strong = False      # these denote (or may denote) integers
            case = {'file': data, 'section_index': idx, 'length': val,
                    'label': 'length_%s' % vkind, 'strong': strong}
            obs.case((fid, idx, val), nontrivial=True)
            if strong:
                judge(recs, exc, short, neg, intact, case, obs,
                      'length_%s' % vkind)
            else:
                judge(recs[:idx], exc, short, neg, intact, case, obs,
                      'length_%s' % vkind)
                # a merely wrong length cannot be detected, but what the
                # reader yields for that section must be exactly what the
                # declared number of bytes denotes (and nothing may be
                # yielded when those bytes do not end in the newline, do not
                # decode or are not JSON)
                if val not in (b'1_0',) and declared is not None and \
                        declared >= 0 and 'line_endings' in sec['options'] \
                        or (sec['kind'] == 'meta' and declared is not None
                            and declared >= 0 and val != b'1_0'):
                    coff2 = sec['coff'] + delta
                    raw = mutated[coff2:coff2 + declared]
                    if len(raw) == declared:
                        obs.count('exact_byte_count_checked')
                        ok, want_c = expected_from_slice(sec, raw)
                        if len(recs) > idx:
                            got = recs[idx]
                            ck = [k for k in common.CONTENT if k in got]
                            c0 = got[ck[0]] if ck else None
                            if not ok:
                                obs.violation(
                                    '%s:yielded_section_without_final_'
                                    'newline' % ('length_%s' % vkind), case,
                                    {'section': got['section']})
                            elif not common.strict_equal(c0, want_c):
                                obs.violation(
                                    '%s:section_content_is_not_the_declared_'
                                    'bytes' % ('length_%s' % vkind), case,
                                    {'section': got['section'],
                                     'got': repr(c0)[:80],
                                     'want': repr(want_c)[:80]})


def common_fid(data):
    from mon.core import fingerprint
    return fingerprint(data)


def gen_file(rng, small=True):
    doc = recipe.gen_doc(rng, max_changes=2, max_files=2, enc_p=0.35)
    if rng.random() < 0.15:
        # a CRLF diff that carries lines ending in a bare LF in the middle
        # (GNU diff / git write the "no newline" marker that way): a cut
        # right after such an LF leaves content that does NOT end in the
        # section's newline
        for kind, sec, inh in recipe.iter_content(doc):
            if kind == 'diff' and not sec.get('encoding'):
                sec['data'] = (b'--- a\r\n+++ b\r\n@@ -1,2 +1,2 @@\r\n-a\r\n'
                               b'\\ No newline at end of file\n+b\r\n'
                               b' lone LF line\n c\r\n'
                               b'\\ No newline at end of file\n+d\r\n')
                sec['line_endings'] = rng.choice([None, 'dos'])
    r = rng.random()
    style = None
    if r < 0.2:
        # canonical otherwise, but with long producer options (commit /
        # blob ids): header lines of 97..400 bytes, so that cuts fall on
        # every offset of long headers, incl. multiples of the reader's
        # read-ahead block, and leave a well-formed shorter header behind
        def extra(index, sid, pairs):
            if index > 0 and rng.random() < 0.6:
                pairs = pairs + [('x-id', '%0*x' % (rng.choice(
                    [40, 64, 90, 130, 200, 320]), rng.getrandbits(160)))]
                if rng.random() < 0.5:
                    pairs = pairs + [('z-parent', 'p' * rng.choice(
                        [30, 70, 96, 150]))]
            return pairs
        data, layout = serialize(doc, Style(rng=rng, extra=extra))
        return doc, data, layout
    if r < 0.4:
        recipe.annotate_droppable(doc)
        style = Style(rng=rng, shuffle=True, blank=rng.choice([0, 0, 2]),
                      crlf_headers=rng.random() < 0.3,
                      drop=rng.sample(['line_endings', 'format', 'mimetype',
                                       'type'], rng.randint(0, 3)),
                      json_style=rng.choice(['canonical', 'compact',
                                             'indent2']))
        data, layout = serialize(doc, style)
    else:
        data, layout = serialize(doc)
    return doc, data, layout


def check_big(doc, obs):
    """Sections of about 1 MiB and more: intact read, and cuts around the
    section boundaries only (a full sweep would be quadratic)."""
    data, layout = serialize(doc)
    intact = expected_records(layout)
    recs, exc, short, neg = run_reader(data)
    obs.case(('big', len(data)), nontrivial=True)
    obs.count('big_files')
    if exc is not None or common.diff_records(intact, recs) is not None:
        d = common.diff_records(intact, recs)
        obs.violation('intact_file_misread:big:%s' % (
            common.exc_mechanism(exc) if exc is not None else d[0]),
            {'big_doc_sizes': [s.get('clen') for s in layout]},
            repr(exc)[:200])
        return
    for s in layout:
        if 'coff' not in s:
            continue
        end = s['coff'] + s['clen']
        for c in (s['coff'], s['coff'] + 1, end - 1, end, end + 1):
            if 0 <= c <= len(data):
                r2, e2, _s, _n = run_reader(data[:c])
                sh, ng = short_flags(layout, c), False
                shape = [f8a_shape(data[x['coff']:c], x.get('nl'),
                                   x['options'].get('indent'))
                         if 'coff' in x and x['coff'] < c < x['coff'] +
                         x['clen'] else False for x in layout]
                judge(r2, e2, sh, ng, intact,
                      {'big_doc_sizes': [x.get('clen') for x in layout],
                       'cut': c}, obs, 'truncation', shape)
                obs.count('big_file_cuts')


def run(ctx):
    obs = ctx.obs
    rng = ctx.rng
    from mon.props.c01 import special_docs, huge_docs
    for i, d in enumerate(special_docs()[:35]):
        if ctx.mine(i):
            check_big(d, obs)
    for i, d in enumerate(huge_docs(ctx.quick)):
        if ctx.mine(i + 11):
            check_big(d, obs)
    nfiles = ctx.share(ctx.pick(96, 5000))
    done = 0
    tries = 0
    while done < nfiles and tries < nfiles * 20:
        tries += 1
        doc, data, layout = gen_file(rng)
        if not (150 <= len(data) <= 3000):
            continue
        done += 1
        check_file(data, layout, obs, 'random', rng)
        if done == 1 and ctx.index == 0:
            obs.sample({'file': data[:500], 'cuts': '0..%d' % len(data)})
    obs.exhaustive = None


def replay(case, obs):
    from mon.oracle import scanner
    data = case['file']
    if case.get('real_streams'):
        return common.check_real_streams(data, obs, case)
    # rebuild a layout-like view of the intact file by reading it with the
    # real reader (the witness carries the bytes, not the recipe)
    intact, exc, _ = common.read_records(data)
    obs.case(None, nontrivial=False)
    if 'cut' in case:
        from mon.oracle.newline import newline_bytes, detect_kind_bytes
        c = case['cut']
        recs, exc, _s, _n = run_reader(data[:c])
        secs, _ = scanner.scan(data)
        short = [('coff' in x and x['coff'] + len(x['raw']) > c)
                 for x in secs]
        neg = False
        shape = []
        for s in secs:
            ok = False
            if 'coff' in s and s['coff'] < c < s['coff'] + len(s['raw']):
                codec = s.get('codec')
                try:
                    kind = s['options'].get('line_endings') or \
                        detect_kind_bytes(s['raw'], codec)
                    ok = f8a_shape(data[s['coff']:c],
                                   newline_bytes(kind, codec),
                                   s['options'].get('indent'))
                except Exception:
                    ok = False
            shape.append(ok)
        judge(recs, exc, short, neg, intact, case, obs, 'truncation', shape)
    else:
        secs, _ = scanner.scan(data)
        sec = secs[case['section_index']]
        hend = data.index(b'\n', sec['hoff']) + 1
        header = data[sec['hoff']:hend]
        new_header = re.sub(br'length=[^,\r\n]+', b'length=' + case['length'],
                            header, count=1)
        mutated = data[:sec['hoff']] + new_header + data[hend:]
        recs, exc, _s, _n = run_reader(mutated)
        try:
            dl = int(case['length'])
        except ValueError:
            dl = None
        neg = dl is not None and dl < 0
        short = [False] * len(secs)
        if dl is not None and dl > len(mutated) - hend - (
                len(new_header) - len(header)):
            short[case['section_index']] = True
        if not case.get('strong', True):
            recs = recs[:case['section_index']]
        swallow = None
        label = case.get('label', 'length_bad')
        if label == 'length_exceeds_data':
            from mon.oracle.newline import newline_bytes, detect_kind_bytes
            i = case['section_index']
            is_last = i == len(secs) - 1
            try:
                codec = sec.get('codec')
                kind = sec['options'].get('line_endings') or \
                    detect_kind_bytes(sec['raw'], codec)
                view = dict(sec, nl=newline_bytes(kind, codec))
                ok, want = expected_from_slice(
                    view, mutated[hend + len(new_header) - len(header):])
                if ok and not is_last:
                    swallow = (i, want)
            except Exception:
                pass
            short = [False] * len(secs)
            short[i] = True
            if is_last:
                label = 'length_plus'
        judge(recs, exc, short, neg, intact, case, obs, label,
              swallow=swallow)
