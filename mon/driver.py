"""Driver: shards -> merge -> classify -> evidence -> verdict.

    python -m mon.driver C07 --tier quick
    python -m mon.driver C07 --replay out/replay/C07-0-1.json

Exit codes: 0 held on what was observed (known findings are printed),
1 violation (prints ``VIOLATION property=<id> replay=<path>``),
2 inconclusive (prints ``INCONCLUSIVE property=<id> reason=...``).
"""
import argparse
import fnmatch
import importlib
import json
import os
import subprocess
import sys
import time

from mon import env, core
from mon.core import Obs, rng_for, unjson, Watchdog, CaseTimeout

PROPS = ['C%02d' % i for i in range(1, 21)]


class Ctx(object):
    def __init__(self, obs, tier, seed, index, n):
        self.obs = obs
        self.tier = tier
        self.seed = seed
        self.index = index
        self.n = n
        self.rng = rng_for(seed, obs.prop, tier, index)
        self.quick = tier == 'quick'

    def pick(self, q, t):
        return q if self.quick else t

    def mine(self, i):
        """Does enumeration item i belong to this shard?"""
        return i % self.n == self.index

    def share(self, total):
        """This shard's share of a total number of random cases."""
        base = total // self.n
        return base + (1 if self.index < total % self.n else 0)


def load_prop(prop):
    return importlib.import_module('mon.props.%s' % prop.lower())


def load_known():
    path = os.path.join(env.VERIF_ROOT, 'known_findings.json')
    try:
        with open(path) as fh:
            data = json.load(fh)
    except FileNotFoundError:
        return []
    return data.get('findings', [])


def classify(v, known):
    """Return the known-finding entry whose mechanism predicate matches."""
    for k in known:
        if k.get('status') != 'known':
            continue
        if k['property'] != v['property']:
            continue
        pats = k['mechanism']
        if isinstance(pats, str):
            pats = [pats]
        if any(fnmatch.fnmatchcase(v['mechanism'], p) for p in pats):
            return k
    return None


# ------------------------------------------------------------ process axes
# Properties quantify over inputs, not over how the interpreter was started
# or what the process did before. Two of every sixteen shards therefore run
# with assertions disabled (python -O), and four only after a warm-up that
# has pushed hostile input through the library (poisoned caches, failed
# codec look-ups): the verdict must not depend on either.
def optimized_shard(i):
    return i % 8 == 5


def warm_shard(i):
    return i % 4 == 1 and not os.environ.get('VERIF_NO_AXES')


# --------------------------------------------------------------------- shard
def run_shard(prop, tier, seed, index, n, out):
    env.setup()
    from mon.monitor import reach, contracts
    mod = load_prop(prop)
    obs = Obs(prop, tier, seed, (index, n))
    ctx = Ctx(obs, tier, seed, index, n)
    contracts.install(obs)
    if warm_shard(index):
        # a process that has already handled hostile input (see
        # mon/gen/warmup.py); outside the reach/coverage monitors so that
        # nothing the warm-up executes counts as observed by the check
        from mon.gen import warmup
        n = warmup.run(rng_for(seed, prop, tier, index, 'warmup'))
        core.ENV['warmup'] = True
        obs.count('env:shards_after_hostile_warmup')
        obs.count('env:warmup_calls', n)
    if sys.flags.optimize:
        obs.count('env:shards_with_python_-O')
    reach.start()
    try:
        mod.run(ctx)
    finally:
        reach.stop()
    contracts.report(obs)
    d = obs.dump()
    d['reach'] = reach.counts()
    d['linecov'] = reach.line_coverage()
    d['contracts'] = contracts.stats()
    tmp = out + '.tmp'
    with open(tmp, 'w') as fh:
        json.dump(d, fh)
    os.replace(tmp, out)


# ------------------------------------------------------------------- merging
def merge(dumps):
    m = {
        'evaluations': 0, 'fps': set(), 'disjoint_distinct': 0,
        'violations': [], 'violation_count': 0, 'mech_counts': {},
        'samples': [], 'counters': {}, 'sets': {}, 'inconclusive': [],
        'exhaustive': None, 'notes': [], 'reach': {}, 'contracts': {},
        'linecov': {},
        'shard_wall_s': [],
    }
    ex = []
    for d in dumps:
        m['evaluations'] += d['evaluations']
        m['fps'].update(d['fps'])
        m['disjoint_distinct'] += d['disjoint_distinct']
        m['violations'].extend(d['violations'])
        m['violation_count'] += d['violation_count']
        for k, v in d['mech_counts'].items():
            m['mech_counts'][k] = m['mech_counts'].get(k, 0) + v
        for s in d['samples']:
            if len(m['samples']) < 5:
                m['samples'].append(s)
        for k, v in d['counters'].items():
            m['counters'][k] = m['counters'].get(k, 0) + v
        for k, v in d['sets'].items():
            m['sets'].setdefault(k, set()).update(
                tuple(x) if isinstance(x, list) else x for x in v)
        for r in d['inconclusive']:
            if r not in m['inconclusive']:
                m['inconclusive'].append(r)
        for r in d['notes']:
            if r not in m['notes']:
                m['notes'].append(r)
        ex.append(d['exhaustive'])
        for k, v in d.get('reach', {}).items():
            m['reach'][k] = m['reach'].get(k, 0) + v
        for k, v in d.get('linecov', {}).items():
            c = m['linecov'].setdefault(k, {'all': set(), 'hit': set()})
            c['all'].update(v['all'])
            c['hit'].update(v['hit'])
        for k, v in d.get('contracts', {}).items():
            c = m['contracts'].setdefault(k, {'evaluated': 0, 'failed': 0})
            c['evaluated'] += v['evaluated']
            c['failed'] += v['failed']
        m['shard_wall_s'].append(round(d['wall_s'], 2))
    if ex and all(e is True for e in ex):
        m['exhaustive'] = True
    elif any(e is not None for e in ex):
        m['exhaustive'] = False
    return m


def replay_dir():
    return os.environ.get('VERIF_REPLAY_DIR') or \
        os.path.join(env.OUT, 'replay')


def write_replay(prop, seed, i, v):
    d = replay_dir()
    os.makedirs(d, exist_ok=True)
    path = os.path.join(d, '%s-%s-%d.json' % (prop, seed, i))
    with open(path, 'w') as fh:
        json.dump(v, fh, indent=1, sort_keys=True)
    return path


def write_evidence(prop, mod, tier, seed, m, wall, n_unknown, known_hits):
    cov = {
        'evaluations': m['evaluations'],
        'distinct_nontrivial': len(m['fps']) + m['disjoint_distinct'],
        'rule': mod.RULE,
        'samples': m['samples'],
        'monitors': m['contracts'],
        'reach': dict(sorted(m['reach'].items(),
                             key=lambda kv: -kv[1])[:60]),
        'line_coverage': {
            k: '%d/%d' % (len(v['hit']), len(v['all']))
            for k, v in sorted(m['linecov'].items())},
        'lines_never_executed(relative to def)': {
            k: sorted(v['all'] - v['hit'])
            for k, v in sorted(m['linecov'].items())
            if v['all'] - v['hit']},
        'counters': dict(sorted(m['counters'].items())),
        'observed_sets': {k: (sorted(v, key=repr)[:60] if len(v) <= 60
                              else {'n': len(v),
                                    'first': sorted(v, key=repr)[:30]})
                          for k, v in sorted(m['sets'].items())},
        'mechanisms_observed': m['mech_counts'],
        'known_findings_observed': known_hits,
        'inconclusive_reasons': m['inconclusive'],
        'shard_wall_s': m['shard_wall_s'],
        'notes': m['notes'],
    }
    if m['exhaustive'] is not None:
        cov['exhaustive'] = bool(m['exhaustive'])
    ev = {
        'property_id': prop,
        'tier': tier,
        'seed': seed,
        'level': mod.LEVEL,
        'coverage': cov,
        'assumptions': list(getattr(mod, 'ASSUMPTIONS', [])),
        'wall_s': round(wall, 2),
        'violations': n_unknown,
    }
    d = os.environ.get('VERIF_EVIDENCE_DIR') or \
        os.path.join(env.VERIF_ROOT, 'evidence')
    os.makedirs(d, exist_ok=True)
    path = os.path.join(d, '%s.json' % prop)
    tmp = path + '.tmp'
    with open(tmp, 'w') as fh:
        json.dump(ev, fh, indent=1, sort_keys=True, default=repr)
        fh.write('\n')
    os.replace(tmp, path)
    return path


# -------------------------------------------------------------------- driver
def drive(prop, tier, seed, nshards):
    t0 = time.time()
    env.ensure_deps()
    mod = load_prop(prop)
    outdir = os.path.join(env.OUT, 'shards', str(os.getpid()))
    os.makedirs(outdir, exist_ok=True)
    nshards = getattr(mod, 'SHARDS', {}).get(tier, nshards)
    timeout = getattr(mod, 'TIMEOUT', {}).get(
        tier, 900 if tier == 'quick' else 6 * 3600)
    procs = []
    penv = dict(os.environ, PYTHONHASHSEED='0', PYTHONDONTWRITEBYTECODE='1',
                VERIF_SEED=str(seed))
    for i in range(nshards):
        out = os.path.join(outdir, '%s-%s-%s-%d.json' % (prop, tier, seed, i))
        if os.path.exists(out):
            os.unlink(out)
        cmd = [sys.executable, '-X', 'faulthandler'] + (
            ['-O'] if optimized_shard(i) and not os.environ.get(
                'VERIF_NO_AXES') else []) + [
            '-m', 'mon.driver', prop,
            '--tier', tier, '--shard', '%d/%d' % (i, nshards),
            '--out', out]
        log = open(out + '.log', 'w')
        procs.append((subprocess.Popen(cmd, cwd=env.VERIF_ROOT, env=penv,
                                       stdout=log, stderr=subprocess.STDOUT),
                      out, log))
    dumps = []
    problems = []
    deadline = t0 + timeout
    for p, out, log in procs:
        try:
            rc = p.wait(timeout=max(1, deadline - time.time()))
        except subprocess.TimeoutExpired:
            p.kill()
            p.wait()
            rc = 'timeout'
        log.close()
        if rc == 0 and os.path.exists(out):
            with open(out) as fh:
                dumps.append(json.load(fh))
            os.unlink(out)
            os.unlink(out + '.log')
        else:
            tail = ''
            try:
                with open(out + '.log') as fh:
                    tail = fh.read()[-1500:]
            except OSError:
                pass
            problems.append('shard %s: rc=%s %s' % (os.path.basename(out),
                                                    rc, tail))
    import glob
    for old in glob.glob(os.path.join(replay_dir(),
                                      '%s-%s-*.json' % (prop, seed))):
        os.unlink(old)
    try:
        os.rmdir(outdir)
    except OSError:
        pass
    m = merge(dumps)
    for pr in problems:
        m['inconclusive'].append(pr)

    floor = getattr(mod, 'FLOOR', {}).get(tier, 2)
    distinct = len(m['fps']) + m['disjoint_distinct']
    if distinct < floor:
        m['inconclusive'].append(
            'only %d distinct non-trivial cases (< floor %d)'
            % (distinct, floor))
    for cname in getattr(mod, 'REQUIRED_COUNTERS', []):
        if not m['counters'].get(cname):
            m['inconclusive'].append(
                'deciding monitor never reached: counter %r is 0' % cname)
    for cname in getattr(mod, 'REQUIRED_CONTRACTS', []):
        if not m['contracts'].get(cname, {}).get('evaluated'):
            m['inconclusive'].append(
                'contract %r was never evaluated' % cname)
    for q in getattr(mod, 'REQUIRED_REACH', []):
        if not any(q in k for k in m['reach']):
            m['inconclusive'].append(
                'no function matching %r of the anchored code was ever entered' % q)

    known = load_known()
    known_hits = {}
    unknown = []
    for v in m['violations']:
        k = classify(v, known)
        if k is None:
            unknown.append(v)
        else:
            known_hits.setdefault(k['id'], {'what': k['what'], 'n': 0})
    # counts by mechanism (all occurrences, not only stored witnesses)
    unknown_mechs = {}
    for mech, n in m['mech_counts'].items():
        probe = {'property': prop, 'mechanism': mech}
        # mechanisms are reported under the running property unless a
        # violation explicitly says otherwise
        owners = set(v['property'] for v in m['violations']
                     if v['mechanism'] == mech) or {prop}
        for owner in owners:
            probe['property'] = owner
            k = classify(probe, known)
            if k is None:
                unknown_mechs[mech] = n
            else:
                known_hits.setdefault(k['id'], {'what': k['what'], 'n': 0})
                known_hits[k['id']]['n'] += n

    wall = time.time() - t0
    write_evidence(prop, mod, tier, seed, m, wall,
                   sum(unknown_mechs.values()), known_hits)

    for kid, info in sorted(known_hits.items()):
        print('KNOWN-FINDING: property=%s %s [%s] (observed %d times this '
              'run)' % (prop, info['what'], kid, info['n']))
    if unknown:
        seen = set()
        i = 0
        for v in unknown:
            if v['mechanism'] in seen:
                continue
            seen.add(v['mechanism'])
            i += 1
            v = dict(v, tier=tier, seed=seed,
                     occurrences=m['mech_counts'].get(v['mechanism']))
            path = write_replay(prop, seed, i, v)
            print('VIOLATION property=%s replay=%s' % (v['property'], path))
            print('  mechanism: %s (x%d)' % (v['mechanism'],
                                             v['occurrences'] or 1))
            if i >= 25:
                break
        for r in m['inconclusive'][:5]:
            print('INCONCLUSIVE property=%s reason=%s' % (prop, r[:600]))
        print('%s: %d violations (%d mechanisms) in %d evaluations, %.1fs'
              % (prop, sum(unknown_mechs.values()), len(unknown_mechs),
                 m['evaluations'], wall))
        return 1
    if m['inconclusive']:
        for r in m['inconclusive'][:10]:
            print('INCONCLUSIVE property=%s reason=%s' % (prop, r))
        return 2
    print('%s: held on %d evaluations (%d distinct non-trivial), %s tier, '
          'seed %s, %.1fs' % (prop, m['evaluations'], distinct, tier, seed,
                              wall))
    return 0


def do_replay(path):
    env.ensure_deps()
    env.setup()
    with open(path) as fh:
        v = json.load(fh)
    venv = v.get('env') or {}
    if bool(venv.get('optimize')) != bool(sys.flags.optimize):
        # reproduce the interpreter flags of the shard that saw it
        cmd = [sys.executable] + (['-O'] if venv.get('optimize') else []) + [
            '-m', 'mon.driver', v.get('replay_property') or v['property'],
            '--replay', path]
        return subprocess.call(cmd, cwd=env.VERIF_ROOT)
    prop = v.get('replay_property') or v['property']
    mod = load_prop(prop)
    if venv.get('warmup'):
        from mon.gen import warmup
        warmup.run(rng_for(v.get('seed', 0), prop, v.get('tier', 'quick'),
                           1, 'warmup'))
        core.ENV['warmup'] = True
    obs = Obs(prop, v.get('tier', 'quick'), v.get('seed', 0))
    from mon.monitor import contracts
    contracts.install(obs)
    case = unjson(v['case'])
    try:
        with Watchdog(120):
            mod.replay(case, obs)
    except CaseTimeout:
        print('INCONCLUSIVE property=%s reason=replay timed out' % prop)
        return 2
    contracts.report(obs)
    known = load_known()
    rc = 0
    for w in obs.violations:
        k = classify(w, known)
        if k is not None:
            print('KNOWN-FINDING: property=%s %s [%s]' % (
                prop, k['what'], k['id']))
            continue
        rc = 1
        print('VIOLATION property=%s replay=%s' % (w['property'], path))
        print('  mechanism: %s' % w['mechanism'])
        print('  detail: %s' % json.dumps(w['detail'])[:2000])
    if rc == 0:
        print('%s: replayed case holds (%d evaluations)' % (
            prop, obs.evaluations))
    return rc


def main(argv=None):
    ap = argparse.ArgumentParser()
    ap.add_argument('prop')
    ap.add_argument('--tier', default=os.environ.get('VERIF_TIER', 'quick'),
                    choices=['quick', 'thorough'])
    ap.add_argument('--shards', type=int,
                    default=int(os.environ.get('VERIF_SHARDS',
                                               os.cpu_count() or 4)))
    ap.add_argument('--shard')
    ap.add_argument('--out')
    ap.add_argument('--replay')
    a = ap.parse_args(argv)
    prop = a.prop.upper()
    if prop not in PROPS:
        ap.error('unknown property %s' % prop)
    try:
        seed = int(os.environ.get('VERIF_SEED', '0') or 0)
    except ValueError:
        seed = 0
    try:
        if a.replay:
            return do_replay(a.replay)
        if a.shard:
            i, n = a.shard.split('/')
            run_shard(prop, a.tier, seed, int(i), int(n), a.out)
            return 0
        return drive(prop, a.tier, seed, a.shards)
    except env.Inconclusive as e:
        print('INCONCLUSIVE property=%s reason=%s' % (prop, e))
        return 2


if __name__ == '__main__':
    sys.exit(main())
