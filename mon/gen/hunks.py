"""Unified-diff hunks with geometry known by construction (the model), plus
single-point damages. Independent of pydiffx."""

MARKER = b'\\ No newline at end of file'

PAYLOADS = [b'', b'x', b'- removed looks', b'+ added looks', b'-- a/file',
            b'++ b/file', b'@@ -1 +1 @@', b'@@ -1,2 +3,4 @@ ctx', b' ',
            b'\\ No newline at end of file', b'#.change:', b'\x00\xff',
            b'tab\there', b'trailing \r', b'diff --git a b', b'---', b'+++',
            b'%d %s %(line)r', b'100%', b'L' * 1500]

GARBAGE = [b'diff --git a/x b/x', b'index 123..456 100644', b'--- a/file',
           b'+++ b/file', b'Index: file', b'====', b'', b'garbage',
           b'@@ not a header', b'@@@ -1 +1 @@@', b'@@ -1 +1', b'-stray',
           b'+stray', b' stray context', b'\\ No newline at end of file',
           b'Binary files differ', b'@@ -a,b +c,d @@',
           # Subversion property sections look like hunks but are not
           b'Property changes on: x', b'## -1,2 +1,2 ##', b'## -0,0 +1 ##',
           b'\\ No newline at end of property']

STRICT_GARBAGE = [g for g in GARBAGE]


def gen_hunk(rng, max_side=12):
    """Returns (lines, model)."""
    nops = rng.randint(0, max_side)
    ops = []
    style = rng.random()
    for _ in range(nops):
        if style < 0.15:
            ops.append(b'+')
        elif style < 0.3:
            ops.append(b'-')
        elif style < 0.4:
            ops.append(b' ')
        else:
            ops.append(rng.choice([b' ', b' ', b'-', b'+']))
    orig_n = sum(1 for o in ops if o in (b' ', b'-'))
    mod_n = sum(1 for o in ops if o in (b' ', b'+'))
    orig_start = rng.choice([0, 1, 1, 2, 10, 164, 99999, 12345678901])
    mod_start = rng.choice([0, 1, 1, 3, 10, 170, 99999])

    def rng_part(start, n):
        if n == 1 and rng.random() < 0.6:
            return b'%d' % start
        return b'%d,%d' % (start, n)
    ctx = rng.choice([None, None, b'def f():', b'', b'@@ tricky @@',
                      b'  spaced  ', b'printf("%d items", n);', b'100%',
                      b'%(line)s %(line_num)d', b'%s %', b'{0} {line}'])
    header = b'@@ -%s +%s @@' % (rng_part(orig_start, orig_n),
                                 rng_part(mod_start, mod_n))
    if ctx is not None:
        header += b' ' + ctx
    lines = [header]
    body_idx = []
    oi = mi = 0
    o = {'start_line': orig_start - 1, 'num_lines': orig_n,
         'first_changed_line': None, 'last_changed_line': None,
         'num_lines_changed': 0}
    m = {'start_line': mod_start - 1, 'num_lines': mod_n,
         'first_changed_line': None, 'last_changed_line': None,
         'num_lines_changed': 0}
    pre = None
    since_last_change = 0
    seen_change = False
    n_ctx_before = 0
    for k, op in enumerate(ops):
        lines.append(op + rng.choice(PAYLOADS))
        body_idx.append(len(lines) - 1)
        if op == b'-':
            if o['first_changed_line'] is None:
                o['first_changed_line'] = o['start_line'] + oi
            o['last_changed_line'] = o['start_line'] + oi
            o['num_lines_changed'] += 1
            oi += 1
        elif op == b'+':
            if m['first_changed_line'] is None:
                m['first_changed_line'] = m['start_line'] + mi
            m['last_changed_line'] = m['start_line'] + mi
            m['num_lines_changed'] += 1
            mi += 1
        else:
            oi += 1
            mi += 1
        if op in (b'-', b'+'):
            if not seen_change:
                pre = n_ctx_before
            seen_change = True
            since_last_change = 0
        else:
            if not seen_change:
                n_ctx_before += 1
            since_last_change += 1
        # interior marker (never after the final body line)
        if k < len(ops) - 1 and rng.random() < 0.08:
            lines.append(MARKER + rng.choice([b'', b' ', b'\r', b'  \t']))
    model = {
        'context': ctx,
        'orig': o, 'modified': m,
        'lines_of_context_pre': pre if seen_change else 0,
        'lines_of_context_post': since_last_change if seen_change else 0,
    }
    return lines, model, body_idx


def gen_diff(rng, ignore_garbage, max_hunks=6):
    """Returns (lines, expected_result, hunk_spans) for a well-formed
    sequence."""
    lines = []
    models = []
    spans = []          # (header_index, [body indices], end_index_exclusive)
    nh = rng.randint(0, max_hunks)
    if ignore_garbage:
        for _ in range(rng.randint(0, 3)):
            lines.append(rng.choice(GARBAGE))
    for h in range(nh):
        hl, model, body_idx = gen_hunk(rng)
        base = len(lines)
        lines.extend(hl)
        models.append(model)
        spans.append((base, [base + i for i in body_idx], len(lines)))
        if ignore_garbage and rng.random() < 0.5:
            for _ in range(rng.randint(1, 3)):
                lines.append(rng.choice(GARBAGE))
    processed = len(lines)
    if not ignore_garbage:
        r = rng.random()
        if r < 0.25:
            # trailing non-hunk material: parsing must stop before it
            for _ in range(rng.randint(1, 3)):
                lines.append(rng.choice(
                    [g for g in GARBAGE if g != MARKER] if lines and
                    lines[-1] != MARKER else GARBAGE))
        elif r < 0.35 and nh:
            lines.append(MARKER)
            processed = (len(lines) - 1, len(lines))
    expected = {
        'hunks': models,
        'num_processed_lines': processed,
        'total_inserts': sum(x['modified']['num_lines_changed']
                             for x in models),
        'total_deletes': sum(x['orig']['num_lines_changed'] for x in models),
    }
    return lines, expected, spans


ILLEGAL = [b'', b'x', b'xyz', b'@@ garbage', b'@@', b'\\ No newline',
           b'\tcontext with tab', b'\\', b'#', b'\x00', b'No newline',
           MARKER + b'.orig', MARKER + b'x', MARKER[:-1], b'x' + MARKER,
           b'\\ no newline at end of file', b'x' * 1025, b'y' * 5000,
           b'@@ -1 +1 @@' + b'z' * 1100 + b' not a header @',
           b'%d %s %(line)r',
           # marker look-alikes: localised, truncated, other wording
           b'\\ Kein Zeilenumbruch am Dateiende.', b'\\ ',
           b'\\ No newline at end of property', b'\\ No newline at end']


def damages(rng, lines, spans, expected, ignore_garbage):
    """Yield (name, damaged_lines, error_line_index, error_line)."""
    for hi, (hdr, body, end) in enumerate(spans):
        if not body:
            continue
        # 1. hunk ends early at end of input
        k = rng.randrange(len(body))
        cut_at = body[k]          # drop this body line and everything after
        keep = lines[:cut_at]
        if keep and keep[-1].strip().startswith(MARKER[:5]) is False:
            pass
        yield 'ends_early_at_eof', keep, len(keep) - 1, keep[-1]
        # 2. hunk interrupted by another hunk header
        nxt = b'@@ -1,1 +1,1 @@'
        dl = lines[:cut_at] + [nxt, b' c'] + lines[end:]
        yield 'interrupted_by_header', dl, cut_at, nxt
        # 3. illegal line at a body position
        k = rng.randrange(len(body))
        pos = body[k]
        bad = rng.choice(ILLEGAL)
        dl = lines[:pos] + [bad] + lines[pos:]
        yield 'illegal_line_in_body', dl, pos, bad
        # 4. a body line replaced by an illegal one
        dl = lines[:pos] + [bad] + lines[pos + 1:]
        yield 'body_line_replaced', dl, pos, bad
        # 5. one body line with its sign flipped so that ONE side ends early
        #    (the other gets a surplus line). Only where what follows is
        #    unambiguous: end of input, or directly another hunk header.
        follows_header = end < len(lines) and lines[end].startswith(b'@@ -')
        at_eof = end == len(lines)
        if follows_header or at_eof:
            flips = {b'-': b'+', b'+': b'-', b' ': rng.choice([b'+', b'-'])}
            cands = [b for b in body if lines[b][:1] in flips and
                     not lines[b].startswith(MARKER[:1])]
            if cands:
                pos = rng.choice(cands)
                old = lines[pos]
                new = flips[old[:1]] + old[1:]
                dl = lines[:pos] + [new] + lines[pos + 1:]
                if at_eof:
                    yield 'sign_flipped_side_ends_early', dl, \
                        len(dl) - 1, dl[-1]
                else:
                    yield 'sign_flipped_side_ends_early', dl, end, lines[end]
