"""Corruption catalogue: byte / token / line / section / content level damage
of well-formed DiffX files. Every operator takes (rng, data, layout) and
returns (name, corrupted_bytes) or None when it does not apply."""
import re

HOSTILE_VALUES = [
    b'abc', b'-1', b'0', b'1.5', b'1e3', b'0x10', b'True', b'None', b'',
    b'9' * 25, b'9' * 400, b'9' * 4400, b'-' + b'9' * 30, b'00', b'1_000',
    b'nope', b'utf-99', b'base64', b'rot13', b'hex', b'zlib', b'undefined',
    b'unicode_escape', b'raw_unicode_escape', b'idna', b'punycode',
    b'utf-7', b'iso2022_jp', b'hz', b'utf-16', b'utf-32', b'cp037', b'ascii',
    b'mac', b'unix', b'dos', b'DOS', b'json', b'yaml', b'text', b'binary',
    b'text/plain', b'text/html', b'1.0', b'2.0', b'1', b'7', b'4', b'13',
    b'100000', b'\xff', b'\xc3\xa9', b'a b', b'a,b', b'a=b', b'.', b'/',
    b'mbcs', b'oem', b'utf_8_sig', b'U8', b'latin1', b'big5', b'quopri',
    b'uu', b'bz2', b'string_escape', b'charmap', b'unicode_internal',
    b'palmos', b'-0', b'+1', b'1e400', b'nan', b'inf',
    # all-digit spellings that Python accepts as codec aliases
    b'437', b'850', b'1252', b'8859', b'936', b'1140', b'037', b'500',
    b'1250', b'866', b'950', b'949', b'932', b'65001',
]
KNOWN_KEYS = [b'length', b'indent', b'encoding', b'line_endings', b'format',
              b'version', b'type', b'mimetype']


def _headers(layout):
    return [(s['hoff'], s['hlen'], s) for s in layout]


def _split_header(h):
    """b'#id: a=b, c=d\\n' -> (prefix 'b#id:', [pairs], eol)"""
    m = re.match(br'^(#\.{0,3}[a-z]+:)(?: (.*?))?(\r?\n)$', h, re.S)
    if not m:
        return None
    pairs = m.group(2).split(b', ') if m.group(2) else []
    return m.group(1), pairs, m.group(3)


def _join_header(prefix, pairs, eol, sep=b', ', lead=b' '):
    if pairs:
        return prefix + lead + sep.join(pairs) + eol
    return prefix + eol


def _replace(data, off, ln, new):
    return data[:off] + new + data[off + ln:]


def op_option_value(rng, data, layout):
    off, ln, s = rng.choice(_headers(layout))
    parts = _split_header(data[off:off + ln])
    if parts is None:
        return None
    prefix, pairs, eol = parts
    val = rng.choice(HOSTILE_VALUES)
    if pairs and rng.random() < 0.6:
        i = rng.randrange(len(pairs))
        k = pairs[i].split(b'=', 1)[0]
        pairs[i] = k + b'=' + val
        name = 'option_value:%s' % k.decode('ascii', 'replace')
    else:
        k = rng.choice(KNOWN_KEYS)
        pairs = [p for p in pairs if not p.startswith(k + b'=')]
        pairs.insert(rng.randint(0, len(pairs)), k + b'=' + val)
        name = 'option_value:%s' % k.decode()
    return name, _replace(data, off, ln, _join_header(prefix, pairs, eol))


BIG = [b'9' * 25, b'4294967295', b'4294967296', b'18446744073709551616',
       b'2147483648', b'9' * 400, b'0', b'-1', b'100000']


def op_two_option_values(rng, data, layout):
    """Two known options of one header both get hostile values (interplay
    of length / indent / encoding / line_endings)."""
    off, ln, s = rng.choice(_headers(layout))
    parts = _split_header(data[off:off + ln])
    if parts is None:
        return None
    prefix, pairs, eol = parts
    k1, k2 = rng.sample(KNOWN_KEYS[:4], 2)
    for k in (k1, k2):
        pool = BIG if k in (b'length', b'indent') and rng.random() < 0.7 \
            else HOSTILE_VALUES
        pairs = [p for p in pairs if not p.startswith(k + b'=')]
        pairs.insert(rng.randint(0, len(pairs)), k + b'=' + rng.choice(pool))
    return ('option_values_pair:%s+%s' % (k1.decode(), k2.decode()),
            _replace(data, off, ln, _join_header(prefix, pairs, eol)))


def op_option_tokens(rng, data, layout):
    off, ln, s = rng.choice(_headers(layout))
    parts = _split_header(data[off:off + ln])
    if parts is None or not parts[1]:
        return None
    prefix, pairs, eol = parts
    r = rng.randrange(6)
    if r == 0:
        del pairs[rng.randrange(len(pairs))]
        name = 'token_deleted'
    elif r == 1:
        pairs.insert(rng.randrange(len(pairs) + 1), rng.choice(pairs))
        name = 'token_duplicated'
    elif r == 2:
        rng.shuffle(pairs)
        name = 'token_swapped'
    elif r == 3:
        sep = rng.choice([b',', b' ,', b',  ', b' ', b';', b',\t'])
        return 'separator_altered', _replace(
            data, off, ln, _join_header(prefix, pairs, eol, sep=sep))
    elif r == 4:
        lead = rng.choice([b'', b'  ', b'\t'])
        return 'lead_space_altered', _replace(
            data, off, ln, _join_header(prefix, pairs, eol, lead=lead))
    else:
        i = rng.randrange(len(pairs))
        pairs[i] = pairs[i].replace(b'=', rng.choice([b' = ', b'==', b'']), 1)
        name = 'equals_altered'
    return name, _replace(data, off, ln, _join_header(prefix, pairs, eol))


def op_header_newline(rng, data, layout):
    off, ln, s = rng.choice(_headers(layout))
    h = data[off:off + ln]
    if h.endswith(b'\r\n'):
        new = h[:-2] + rng.choice([b'\n', b'\r', b'\r\r\n'])
    else:
        new = h[:-1] + rng.choice([b'\r\n', b'\r', b'\r\r\n', b'\n\n'])
    return 'header_newline_mixed', _replace(data, off, ln, new)


def op_all_crlf_then_one_lf(rng, data, layout):
    """CRLF on every header but one (or LF on all but one)."""
    out = []
    pos = 0
    victim = rng.randrange(len(layout))
    mode = rng.random() < 0.5
    for i, s in enumerate(layout):
        out.append(data[pos:s['hoff']])
        h = data[s['hoff']:s['hoff'] + s['hlen']].rstrip(b'\r\n')
        crlf = mode != (i == victim)
        out.append(h + (b'\r\n' if crlf else b'\n'))
        pos = s['hoff'] + s['hlen']
    out.append(data[pos:])
    return 'header_newlines_one_differs', b''.join(out)


def op_lines(rng, data, layout):
    lines = data.split(b'\n')
    if len(lines) < 3:
        return None
    i = rng.randrange(len(lines) - 1)
    r = rng.randrange(3)
    if r == 0:
        del lines[i]
        name = 'line_deleted'
    elif r == 1:
        lines.insert(i, lines[i])
        name = 'line_duplicated'
    else:
        j = rng.randrange(len(lines) - 1)
        lines[i], lines[j] = lines[j], lines[i]
        name = 'lines_swapped'
    return name, b'\n'.join(lines)


def _section_spans(data, layout):
    spans = []
    for s in layout:
        end = s['hoff'] + s['hlen']
        if 'coff' in s:
            end = s['coff'] + s['clen']
        spans.append((s['hoff'], end))
    return spans


def op_sections(rng, data, layout):
    spans = _section_spans(data, layout)
    if len(spans) < 2:
        return None
    chunks = [data[a:b] for a, b in spans]
    i = rng.randrange(len(chunks))
    r = rng.randrange(4)
    if r == 0:
        del chunks[i]
        name = 'section_dropped'
    elif r == 1:
        chunks.insert(rng.randrange(len(chunks) + 1), chunks[i])
        name = 'section_duplicated'
    elif r == 2:
        j = rng.randrange(len(chunks))
        chunks[i], chunks[j] = chunks[j], chunks[i]
        name = 'sections_swapped'
    else:
        chunks = chunks[:i]
        name = 'sections_truncated'
    return name, b''.join(chunks)


def _content_sections(layout):
    return [s for s in layout if 'coff' in s]


def _set_length(header, n):
    return re.sub(br'length=[^,\r\n]+', b'length=%d' % n, header, count=1)


def _with_content(data, s, new, fix_length=True):
    h = data[s['hoff']:s['hoff'] + s['hlen']]
    if fix_length:
        h = _set_length(h, len(new))
    return data[:s['hoff']] + h + new + data[s['coff'] + s['clen']:]


def op_content_undecodable(rng, data, layout):
    cs = _content_sections(layout)
    if not cs:
        return None
    s = rng.choice(cs)
    raw = bytearray(data[s['coff']:s['coff'] + s['clen']])
    nl = s.get('nl') or b'\n'
    body_len = max(1, len(raw) - len(nl))
    for _ in range(rng.randint(1, 4)):
        raw[rng.randrange(body_len)] = rng.choice([0xff, 0xfe, 0x80, 0xc3,
                                                   0xd8, 0x00, 0xdc, 0xed])
    return 'content_bytes_undecodable', _with_content(data, s, bytes(raw))


def op_content_odd_bytes(rng, data, layout):
    cs = [s for s in _content_sections(layout)
          if (s.get('codec') or '').startswith(('utf-16', 'utf-32'))]
    if not cs:
        return None
    s = rng.choice(cs)
    raw = data[s['coff']:s['coff'] + s['clen']]
    i = rng.randrange(len(raw))
    new = raw[:i] + raw[i + 1:] if rng.random() < 0.5 else \
        raw[:i] + b'\x00' + raw[i:]
    return 'content_odd_byte_count', _with_content(data, s, new)


def op_content_empty(rng, data, layout):
    cs = _content_sections(layout)
    if not cs:
        return None
    s = rng.choice(cs)
    if rng.random() < 0.5:
        return 'content_empty_length_0', _with_content(data, s, b'')
    nl = s.get('nl') or b'\n'
    return 'content_only_newline', _with_content(data, s, nl)


def op_content_no_newline(rng, data, layout):
    cs = _content_sections(layout)
    if not cs:
        return None
    s = rng.choice(cs)
    raw = data[s['coff']:s['coff'] + s['clen']]
    nl = s.get('nl') or b'\n'
    if not raw.endswith(nl) or len(raw) <= len(nl):
        return None
    return 'content_without_final_newline', _with_content(
        data, s, raw[:-len(nl)])


def op_meta_not_object(rng, data, layout):
    cs = [s for s in _content_sections(layout) if s['kind'] == 'meta']
    if not cs:
        return None
    s = rng.choice(cs)
    codec = s.get('codec') or 'ascii'
    txt = rng.choice(['[1, 2]', '1', '"str"', 'null', 'true', '[]', '1.5',
                      '{"a": 1, "a": 2}', '{"k": NaN}', '{"k": Infinity}',
                      '{"k": -Infinity}', '[{}]', '  {}  ', '{} {}',
                      '{"k": "\\ud800"}', '﻿{}', '{"k": 1e999}',
                      '{' + '"a": ' * 0 + '"k": ' + '9' * 4400 + '}',
                      '[' * 100000 + ']' * 100000,
                      '{"a":' * 3000 + '1' + '}' * 3000,
                      '{"k": "v",}', "{'k': 1}", '{"k": 01}', ''])
    try:
        new = (txt + '\n').encode(codec)
    except UnicodeError:
        new = (txt + '\n').encode('utf-8', 'surrogatepass')
    sig = ''.encode(codec)
    if sig and not new.startswith(sig):
        new = sig + new
    return 'meta_json_special', _with_content(data, s, new)


def op_meta_bad_json_mixed_newlines(rng, data, layout):
    """Broken JSON in a metadata section whose line breaks disagree with its
    declared line_endings (an error located by line / column has to be
    reported against one of the two line structures)."""
    cs = [s for s in _content_sections(layout) if s['kind'] == 'meta']
    if not cs:
        return None
    s = rng.choice(cs)
    codec = s.get('codec') or 'ascii'
    declared = rng.choice(['dos', 'unix'])
    inner = '\n' if declared == 'dos' else '\r\n'
    final = '\r\n' if declared == 'dos' else '\n'
    n = rng.randint(1, 12)
    body = '{' + inner + ''.join('    "k%d": %d,%s' % (i, i, inner)
                                 for i in range(n))
    body += rng.choice(['}', '    "x": }', ']', '    "y" 1' + inner + '}',
                        '    "z": tru' + inner + '}']) + final
    try:
        new = body.encode(codec)
    except UnicodeError:
        return None
    new = new[len(''.encode(codec)):]
    h = data[s['hoff']:s['hoff'] + s['hlen']]
    eol = b'\r\n' if h.endswith(b'\r\n') else b'\n'
    core = h[:-len(eol)]
    if b'line_endings=' in core:
        core = re.sub(br'line_endings=[^,\r\n]+',
                      b'line_endings=' + declared.encode(), core, count=1)
    else:
        core += b', line_endings=' + declared.encode()
    core = _set_length(core, len(new))
    return ('meta_bad_json_mixed_newlines',
            data[:s['hoff']] + core + eol + new +
            data[s['coff'] + s['clen']:])


_ATTR_NAMES = []


def attribute_like_keys():
    """Grammatical option keys that are also names of attributes / methods /
    slots of the object-model classes (collected by reflection, with a
    static fallback): as header options they are just unknown options."""
    if _ATTR_NAMES:
        return _ATTR_NAMES
    names = set(['meta', 'files', 'diff', 'preamble', 'meta_section',
                 'diff_section', 'preamble_section', 'changes', 'options',
                 'subsections', 'section_id', 'content', 'add_file',
                 'add_change', 'to_bytes', 'generate_stats', 'self',
                 'parent_section', 'kwargs', 'attrs'])
    try:
        from pydiffx.dom import objects
        for cls in vars(objects).values():
            if isinstance(cls, type):
                names.update(dir(cls))
                for k in cls.__mro__:
                    sl = k.__dict__.get('__slots__', ())
                    names.update([sl] if isinstance(sl, str) else sl)
    except Exception:
        pass
    _ATTR_NAMES.extend(sorted(n for n in names
                              if re.match(r'^[A-Za-z][A-Za-z0-9_-]*$', n)))
    return _ATTR_NAMES


def op_option_named_like_attribute(rng, data, layout):
    if not layout:
        return None
    s = rng.choice(list(layout))
    h = data[s['hoff']:s['hoff'] + s['hlen']]
    eol = b'\r\n' if h.endswith(b'\r\n') else b'\n'
    core = h[:-len(eol)]
    key = rng.choice(attribute_like_keys()).encode()
    val = rng.choice([b'x', b'4', b'json', b'utf-8', b'0', b'text/plain'])
    core += (b', ' if b'=' in core else b' ') + key + b'=' + val
    return ('option_named_like_attribute',
            data[:s['hoff']] + core + eol + data[s['hoff'] + s['hlen']:])


def op_byte_edits(rng, data, layout):
    b = bytearray(data)
    for _ in range(rng.randint(1, 3)):
        if not b:
            b.extend(b'#')
        r = rng.randrange(3)
        i = rng.randrange(len(b))
        if r == 0:
            b[i] = rng.randrange(256)
        elif r == 1:
            del b[i]
        else:
            b.insert(i, rng.choice(b'\n\r #.:=,\x00\xff9a'))
        if not b:
            break
    return 'random_byte_edits', bytes(b)


def op_header_bytes(rng, data, layout):
    """Non-ASCII / control bytes inside a header line."""
    off, ln, s = rng.choice(_headers(layout))
    h = bytearray(data[off:off + ln])
    i = rng.randrange(max(1, len(h) - 1))
    h[i:i] = rng.choice([b'\xff', b'\xc3\xa9', b'\x00', b'\t', b' ', b'#',
                         b'\r', b'\x0b', b'\x0c', b'\x1c', b'\x85'])
    return 'header_foreign_byte', _replace(data, off, ln, bytes(h))


def op_prepend(rng, data, layout):
    pre = rng.choice([b'\xef\xbb\xbf', b'\n', b'\r\n', b' ', b'\n\n\n',
                      b'garbage\n', b'\x00', b'#', b'\xff\xfe'])
    return 'prefix_garbage', pre + data


def op_random_bytes(rng, data, layout):
    n = rng.randint(0, 300)
    r = rng.random()
    if r < 0.5:
        return 'random_bytes', bytes(rng.randrange(256) for _ in range(n))
    alphabet = b'#.:=, \n\r\tabcdiffxmetapreamblechangefilelength0123456789'
    return 'random_diffx_alphabet', bytes(rng.choice(alphabet)
                                          for _ in range(n))


OPERATORS = [
    (op_option_value, 30), (op_two_option_values, 10), (op_option_tokens, 8), (op_header_newline, 5),
    (op_all_crlf_then_one_lf, 3), (op_lines, 6), (op_sections, 8),
    (op_content_undecodable, 8), (op_content_odd_bytes, 4),
    (op_content_empty, 3), (op_content_no_newline, 2),
    (op_meta_not_object, 5), (op_meta_bad_json_mixed_newlines, 3),
    (op_option_named_like_attribute, 6),
    (op_byte_edits, 12), (op_header_bytes, 5),
    (op_prepend, 2), (op_random_bytes, 5),
]
_W = [w for _, w in OPERATORS]
_OPS = [o for o, _ in OPERATORS]


def corrupt(rng, data, layout, n_ops=1):
    """Apply 1..n operators (the layout is only valid for the first)."""
    names = []
    for k in range(n_ops):
        for _ in range(10):
            op = rng.choices(_OPS, _W)[0]
            if k > 0 and op not in (op_byte_edits, op_lines, op_prepend):
                continue
            r = op(rng, data, layout)
            if r is not None:
                names.append(r[0])
                data = r[1]
                break
    return names, data
