"""Hostile warm-up: what a long-running process may have pushed through the
library *before* the executions a check judges.

None of the properties is conditional on the process being fresh: a service
that parses uploads has seen truncated, corrupted and odd files, failed codec
look-ups and rejected writer calls before it sees the next well-formed file.
The warm-up drives exactly that through the real entry points and ignores
every outcome; the check then judges its usual executions in the same
process. State that leaks from one call into another (caches keyed too
coarsely, memoised failures, shared scratch buffers left dirty) shows up as
an ordinary violation of the property in those shards and not in the cold
ones.

Nothing here is a verdict; the warm-up runs outside the reach / coverage
monitors.
"""
import io

# codec names that are unknown during warm-up and that C15 registers later
LATE_CODECS = {
    'veriflate16': 'utf-16', 'verif-late-32': 'utf-32',
    'verif_late_8sig': 'utf-8-sig', 'veriflate16le': 'utf-16-le',
    'veriflatelatin': 'latin-1',
}

INDENTS = list(range(0, 65)) + [72, 80, 96, 100, 128, 255, 256, 1000, 1023,
                                1024, 4096, 65535, 65536]


def _quiet(fn, *a, **kw):
    try:
        r = fn(*a, **kw)
        if hasattr(r, '__next__'):
            for _ in r:
                pass
        return r
    except BaseException as e:  # noqa - outcomes are irrelevant here
        if isinstance(e, (KeyboardInterrupt, SystemExit, MemoryError)):
            raise
        return None


def _read_both(data):
    from pydiffx.reader import DiffXReader
    from pydiffx.dom import DiffX
    _quiet(lambda: list(DiffXReader(io.BytesIO(data))))
    _quiet(DiffX.from_bytes, data)
    return 2


def short_sections():
    """Sections whose content is shorter than their declared indent, empty,
    or shorter than the newline of their encoding."""
    out = []
    for n in INDENTS:
        for enc, nl in (('utf-8', b'\n'), ('utf-16', b'\n\x00'),
                        ('utf-32', b'\n\x00\x00\x00'), ('latin-1', b'\r\n')):
            for body in (nl, b' ' + nl, b'a' + nl if len(nl) == 1 else
                         'a'.encode(enc)[len(''.encode(enc)):] + nl):
                out.append(
                    b'#diffx: encoding=%s, version=1.0\n'
                    b'#.preamble: indent=%d, length=%d\n%s'
                    b'#.change:\n#..preamble: indent=%d, length=%d\n%s'
                    b'#..file:\n#...meta: format=json, length=3\n{}\n'
                    % (enc.encode(), n, len(body), body, n, len(body), body))
    return out


def run(rng):
    """Returns the number of library calls made."""
    from pydiffx.writer import DiffXWriter
    from pydiffx.utils import text as T
    from mon.gen import recipe, corrupt
    from mon.oracle.serializer import serialize
    n = 0
    for d in short_sections():
        n += _read_both(d)

    # corrupted and truncated versions of ordinary files
    for _ in range(60):
        doc = recipe.gen_doc(rng)
        try:
            data, layout = serialize(doc)
        except Exception:
            continue
        for _ in range(6):
            try:
                bad = corrupt.corrupt(rng, data, layout,
                                      n_ops=rng.choice([1, 1, 2, 3]))
            except Exception:
                continue
            if isinstance(bad, tuple):
                bad = bad[0]
            n += _read_both(bad)
        cut = rng.randrange(len(data) + 1)
        n += _read_both(data[:cut])

    # codec names that do not resolve (yet), through every entry point that
    # takes one
    for name in list(LATE_CODECS) + ['no-such-codec', 'utf-99', 'x' * 40]:
        for fn, args in (
                (T.strip_bom, (b'\xff\xfe\n\x00', name)),
                (T.get_newline_for_type, ('unix', name)),
                (T.get_newline_for_type, ('dos', name)),
                (T.guess_line_endings, ('a\nb\n', name)),
                (T.guess_line_endings, (b'a\r\nb\r\n', name))):
            _quiet(fn, *args)
            n += 1
        n += _read_both(b'#diffx: encoding=%s, version=1.0\n'
                        b'#.preamble: length=2\na\n' % name.encode())
        for kind in ('main', 'change', 'pre', 'meta', 'diff'):
            w = _quiet(DiffXWriter, io.BytesIO(),
                       encoding=name if kind == 'main' else 'utf-8')
            if w is None:
                continue
            if kind == 'change':
                _quiet(w.new_change, encoding=name)
            elif kind == 'pre':
                _quiet(w.write_preamble, 'text\n', encoding=name)
                _quiet(w.write_preamble, 'text\n', encoding=name,
                       line_endings='dos')
            elif kind == 'meta':
                _quiet(w.write_meta, {'k': 'v'}, encoding=name)
            elif kind == 'diff':
                _quiet(w.new_change)
                _quiet(w.new_file)
                _quiet(w.write_meta, {'k': 'v'})
                _quiet(w.write_diff, b'--- a\n+++ b\n', encoding=name)
                _quiet(w.write_diff, b'--- a\n+++ b\n', encoding=name,
                       line_endings='unix')
            n += 3

    # rejected writer calls of every kind
    for _ in range(40):
        w = DiffXWriter(io.BytesIO(), encoding='utf-8')
        calls = [
            lambda: w.write_preamble(''), lambda: w.write_preamble(b'x'),
            lambda: w.write_preamble('\udc80'),
            lambda: w.write_preamble('x', indent=-1),
            lambda: w.write_preamble('x', line_endings='mac'),
            lambda: w.write_meta({}), lambda: w.write_meta([1]),
            lambda: w.write_meta({'k': object()}),
            lambda: w.write_meta({'k': 1}, meta_format='yaml'),
            lambda: w.new_change(), lambda: w.new_file(),
            lambda: w.write_diff(b''), lambda: w.write_diff('text'),
            lambda: w.write_diff(b'x', line_endings='mac'),
            lambda: w.write_preamble('ok\n', indent=rng.choice(INDENTS)),
            lambda: w.write_meta({'k': 'v'}),
            lambda: w.write_diff(b'--- a\n+++ b\n@@ -1 +1 @@\n-a\n+b\n'),
        ]
        for _ in range(12):
            _quiet(rng.choice(calls))
            n += 1

    # statistics over hunks that do not parse; a lexer over junk
    from pydiffx.dom import DiffX
    for body in (b'@@ -1,5 +1,5 @@\n-a\n', b'@@ nope @@\n', b'\x00\xff\n',
                 b'@@ -1 +1 @@\n?\n', b'--- a\n+++ b\n@@ -9 +9 @@\n'):
        t = DiffX()
        c = _quiet(t.add_change)
        f = _quiet(c.add_file) if c is not None else None
        if f is not None:
            try:
                f.diff = body
            except Exception:
                pass
            _quiet(t.generate_stats)
            _quiet(t.to_bytes)
            n += 2
    try:
        from pydiffx.integrations.pygments_lexer import DiffXLexer
        lx = DiffXLexer()
        for s in ('#.', '#diffx: x\n#...diff: length=\n', '\x00#..meta:',
                  '#.preamble: indent=4\n    x'):
            g = lx.get_tokens_unprocessed(s)
            _quiet(lambda: next(g))      # left half-consumed on purpose
            n += 1
    except Exception:
        pass
    return n
