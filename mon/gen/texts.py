"""Hostile text / bytes / JSON pools."""

HOSTILE_LINES = [
    '#diffx: version=1.0',
    '#diffx: encoding=utf-8, version=9',
    '#.change:',
    '#.change: encoding=utf-16',
    '#..meta: length=5',
    '#..meta: format=json, length=100',
    '#..file:',
    '#...diff: length=1',
    '#.preamble: indent=4, length=3',
    '#....diff:',
    '@@ -1 +1 @@',
    '@@ -1,3 +1,4 @@ def f():',
    '--- a/file',
    '+++ b/file',
    '\\ No newline at end of file',
    '-removed',
    '+added',
    ' context',
    '',
    ' ',
    '    ',
    '     five spaces',
    '\ttab',
    'plain words here',
    '﻿bom at start',
    'bom ﻿ inside',
    'nul\x00byte',
    'lone\rcr',
    'trailing cr\r',
    'café über',
    '日本語テキスト',
    '\U0001f600 emoji',
    '{"json": 1}',
    'x' * 130,
    '\x80\x20',           # C1 control: in EBCDIC codecs 0x20 is a control
]

# characters whose UTF-16 / UTF-32 code units contain 0x0A / 0x0D / 0x20 bytes
LOOKALIKE_EXTRA = ['\u3000', '\u4e00', '\u2500', '\u0100', '\u0a85', '\u0a20',
                   '\u0d20', '\u2000', '\u200a', '\u0a40']
LOOKALIKE_CHARS = ['਀', '਍', 'ഊ', 'Ċ', ' ',
                   ' ', 'ਊ', '†', '഍', ' ',
                   'ਠ', '‍']


_dic = {}


def _dictionary():
    if 'v' not in _dic:
        try:
            from mon.gen import dictionary
            _dic['v'] = dictionary.as_text()
        except Exception:
            _dic['v'] = []
    return _dic['v']


def text(rng, codec=None, lookalikes=True, maxlines=6):
    """Random hostile text; if codec is given only encodable material."""
    n = rng.randint(1, maxlines)
    lines = []
    dic = _dictionary()
    for _ in range(n):
        r = rng.random()
        if r < 0.06 and dic:
            ln = rng.choice(dic)
            if '\n' in ln or '\r' in ln:
                ln = ln.replace('\n', ' ').replace('\r', ' ')
        elif r < 0.65:
            ln = rng.choice(HOSTILE_LINES)
        elif r < 0.8 and lookalikes:
            ln = ''.join(rng.choice(LOOKALIKE_CHARS + LOOKALIKE_EXTRA +
                                    ['a', ' ', 'z'])
                         for _ in range(rng.randint(1, 6)))
        else:
            ln = ''.join(rng.choice('ab #.:=,-+@\\') for _ in
                         range(rng.randint(0, 12)))
        if codec is not None:
            ln = _restrict(ln, codec)
        lines.append(ln)
    style = rng.random()
    if style < 0.55:
        nl = '\n'
    elif style < 0.85:
        nl = '\r\n'
    else:
        nl = None  # mixed
    out = []
    for i, ln in enumerate(lines):
        out.append(ln)
        if i < len(lines) - 1:
            out.append(nl if nl else rng.choice(['\n', '\r\n', '\r\r\n']))
    s = ''.join(out)
    if rng.random() < 0.04:
        # a very long first line (read-ahead windows, scan limits)
        pad = 'L' * rng.choice([1000, 1022, 1023, 1024, 1025, 2048, 4100])
        s = (pad if codec is None else _restrict(pad, codec)) + s
    r = rng.random()
    if r < 0.5:
        s += nl if nl else rng.choice(['\n', '\r\n'])
    elif r < 0.6:
        s += '\n\n'
    if not s:
        s = 'x'
    return s


def _restrict(s, codec):
    try:
        s.encode(codec)
        return s
    except UnicodeError:
        pass
    out = []
    for ch in s:
        try:
            ch.encode(codec)
            out.append(ch)
        except UnicodeError:
            out.append('?')
    return ''.join(out)


def restrict(s, codec):
    s = _restrict(s, codec)
    return s if s else 'x'


JSON_KEYS = ['a', 'b', 'path', 'stats', 'revision', 'old', 'new', 'type',
             'café', '日本', 'key with space', 'k\n', '', 'Z',
             '#.change:', '\x00', '\U0001f600', '0', 'x"y', 'back\\slash']
JSON_STRS = ['', 'v', 'value', 'café', '日本語', 'line\nbreak',
             'crlf\r\n', 'quote"q', 'back\\', '\x00\x01\x1f', ' ',
             '\U0001f600', '#..meta: length=1', ' lead', 'trail ', '﻿',
             '퟿', '/', 'a' * 90,
             # what os.fsdecode() gives for undecodable file names, and other
             # lone surrogates: legal JSON strings once escaped
             'src/caf\udce9.txt', '\ud800', 'rev\udc00\ud800pair']


def json_value(rng, depth=0):
    r = rng.random()
    if depth >= 3 or r < 0.45:
        k = rng.randint(0, 6)
        if k == 0:
            return rng.choice(JSON_STRS)
        if k == 1:
            return rng.randint(-10 ** 6, 10 ** 6)
        if k == 2:
            return rng.choice([0.5, -1.25, 1e20, 3.0, 1e-7, 123456.789])
        if k == 3:
            return rng.choice([True, False])
        if k == 4:
            return None
        if k == 5:
            return rng.randint(-2 ** 70, 2 ** 70)
        return rng.choice(JSON_STRS)
    if r < 0.75:
        return json_object(rng, depth + 1, allow_empty=True)
    return [json_value(rng, depth + 1) for _ in range(rng.randint(0, 3))]


def json_object(rng, depth=0, allow_empty=False):
    n = rng.randint(0 if allow_empty else 1, 4)
    keys = rng.sample(JSON_KEYS, n)
    return {k: json_value(rng, depth) for k in keys}


def diff_bytes(rng, codec=None):
    """Diff payload: text-ish in a codec, or raw random bytes."""
    r = rng.random()
    if r < 0.25:
        n = rng.randint(1, 40)
        b = bytes(rng.randrange(256) for _ in range(n))
        return b
    if r < 0.35:
        return rng.choice([b'\n', b'\r\n', b'\x00', b' ', b'\xff\xfe',
                           b'#.change:\n', b'\n\n', b'\r', b'a'])
    body = text(rng, codec)
    try:
        return body.encode(codec or 'utf-8')
    except UnicodeError:
        return body.encode('utf-8')
