"""Codec catalogue built from the running interpreter.

A codec is kept when it is a text encoding and passes a statelessness probe
(encoding is a homomorphism over concatenation modulo the codec's own
signature). Spellings of a codec are kept when Python resolves them to the
same codec, they match the DiffX option-value grammar and are not purely
numeric (a numeric option value is an integer to a DiffX reader).
"""
import codecs
import encodings.aliases
import re

VALUE_RE = re.compile(r'^[A-Za-z0-9/._-]+$')

FAMILIES = {
    'utf8': ['utf_8', 'utf_8_sig'],
    'utf16': ['utf_16', 'utf_16_le', 'utf_16_be'],
    'utf32': ['utf_32', 'utf_32_le', 'utf_32_be'],
    'latin': ['latin_1', 'iso8859_2', 'iso8859_5', 'iso8859_7', 'iso8859_9',
              'iso8859_15', 'ascii', 'koi8_r', 'mac_roman'],
    'windows': ['cp1250', 'cp1251', 'cp1252', 'cp1253', 'cp1256', 'cp437',
                'cp850', 'cp866'],
    'ebcdic': ['cp037', 'cp500', 'cp1140', 'cp273', 'cp1026'],
    'cjk': ['shift_jis', 'euc_jp', 'cp932', 'gbk', 'gb18030', 'gb2312',
            'big5', 'euc_kr', 'cp949', 'shift_jisx0213', 'euc_jis_2004',
            'big5hkscs', 'johab'],
}

PROBE = ['a', '\n', '\r\n', 'ab\ncd', 'x\r\ny', ' ', '0']
#: non-ASCII probes (used when the codec can encode them): shift-state codecs
#: such as ISO-2022, HZ or UTF-7 only show their state outside ASCII
PROBE_WIDE = ['\u00e9', '\u65e5', '\u672c', '\u0416', '\u05d0', '\u03a9', '\uac00',
              '\u0e01', '\u20ac']

_cache = {}


def canonical(name):
    return codecs.lookup(name).name


def is_text(name):
    try:
        ci = codecs.lookup(name)
    except LookupError:
        return False
    return getattr(ci, '_is_text_encoding', True)


def stateless(name):
    """enc(a+b) == enc(a) + (enc(b) minus signature) on the probe set."""
    try:
        sig = ''.encode(name)
        probe = list(PROBE)
        for ch in PROBE_WIDE:
            try:
                ch.encode(name)
                probe.append(ch)
            except UnicodeError:
                pass
        for a in probe:
            for b in probe:
                ea = a.encode(name)
                eb = b.encode(name)
                if not eb.startswith(sig):
                    return False
                if (a + b).encode(name) != ea + eb[len(sig):]:
                    return False
                if (a + b).encode(name).decode(name) != a + b:
                    return False
    except (UnicodeError, LookupError):
        return False
    return True


def catalogue():
    """dict canonical-python-name -> family for all kept codecs."""
    if 'cat' in _cache:
        return _cache['cat']
    kept = {}
    dropped = []
    fams = dict(FAMILIES)
    known = set(n for v in FAMILIES.values() for n in v)
    # every codec the interpreter registers an alias for
    fams['other'] = sorted(set(encodings.aliases.aliases.values()) - known)
    for fam, names in fams.items():
        for n in names:
            if not is_text(n):
                dropped.append((n, 'not a text codec'))
                continue
            if not stateless(n):
                dropped.append((n, 'stateful'))
                continue
            kept.setdefault(canonical(n), fam)
    _cache['cat'] = kept
    _cache['dropped'] = dropped
    return kept


def dropped():
    catalogue()
    return list(_cache['dropped'])


def spellings(canon):
    """All accepted spellings of a catalogue codec (sorted, canonical first).
    """
    key = ('sp', canon)
    if key in _cache:
        return _cache[key]
    cands = {canon}
    target = codecs.lookup(canon).name
    for alias, real in encodings.aliases.aliases.items():
        try:
            if codecs.lookup(real).name == target:
                cands.add(alias)
                cands.add(real)
        except LookupError:
            pass
    more = set()
    for c in cands:
        more.add(c.replace('_', '-'))
        more.add(c.replace('-', '_'))
        more.add(c.upper())
        more.add(c.upper().replace('_', '-'))
        more.add(c.title())
        more.add(c.replace('_', '').replace('-', ''))
    cands |= more
    # Python folds every run of non-alphanumeric characters (except '.')
    # into one separator: "utf--16", "utf-_16", "utf/16" name the same codec
    seps = set()
    for c in list(cands):
        m = re.search(r'[-_]', c)
        if m:
            for rep in ('--', '__', '-_', '_-', '/', '-/-'):
                seps.add(c[:m.start()] + rep + c[m.end():])
            last = c.rfind('_') if c.rfind('_') > c.rfind('-') else c.rfind('-')
            if last != m.start():
                seps.add(c[:last] + '--' + c[last + 1:])
    cands |= seps
    out = []
    for c in sorted(cands):
        if not VALUE_RE.match(c):
            continue
        if re.match(r'^-?[0-9]+$', c):
            continue
        try:
            int(c)
            continue          # python-int spellings such as "1_0"
        except ValueError:
            pass
        try:
            if codecs.lookup(c).name != target:
                continue
        except LookupError:
            continue
        out.append(c)
    out.sort(key=lambda s: (s != canon, s))
    _cache[key] = out
    return out


# Codecs that tell each other apart: a text encoded in one either fails to
# decode or decodes to something else in every other one (used by C04).
DISTINGUISHING = ['utf-8', 'utf-16', 'utf-32-be', 'cp037', 'latin-1',
                  'shift_jis']

# Canonical names used by the general round-trip generators (spelled exactly
# as pydiffx's own BOM table spells them, so that C01/C02 do not depend on
# C15's spelling question).
ROUNDTRIP = ['utf-8', 'utf-16', 'utf-16-le', 'utf-16-be', 'utf-32',
             'utf-32-le', 'utf-32-be', 'latin-1', 'ascii', 'cp1252', 'cp037',
             'shift_jis', 'gb18030', 'euc_kr', 'big5']


def encodable(text, codec):
    try:
        return text.encode(codec).decode(codec) == text
    except (UnicodeError, LookupError):
        return False
