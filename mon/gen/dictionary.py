"""Fuzzing dictionary harvested from the tree under test: every str / bytes
literal of the non-test pydiffx sources (2..80 characters). Implementations
that rely on "magic" markers, sentinels or special strings put exactly those
into their source, so inputs containing the literals reach such code paths
without the harness knowing the names. Docstrings are skipped."""
import ast
import os

from mon import env

_cache = {}


def literals():
    if 'v' in _cache:
        return _cache['v']
    root = os.path.join(env.REPO, 'python', 'pydiffx')
    out = set()
    for dp, dn, fn in os.walk(root):
        if os.sep + 'tests' in dp:
            continue
        for f in fn:
            if not f.endswith('.py'):
                continue
            try:
                tree = ast.parse(open(os.path.join(dp, f), 'rb').read())
            except Exception:
                continue
            doc = set()
            for node in ast.walk(tree):
                if isinstance(node, (ast.Module, ast.ClassDef,
                                     ast.FunctionDef)):
                    b = node.body
                    if b and isinstance(b[0], ast.Expr) and \
                            isinstance(getattr(b[0], 'value', None),
                                       ast.Constant):
                        doc.add(id(b[0].value))
            for node in ast.walk(tree):
                if isinstance(node, ast.Constant) and id(node) not in doc:
                    v = node.value
                    if isinstance(v, str) and 2 <= len(v) <= 80:
                        out.add(v)
                    elif isinstance(v, bytes) and 2 <= len(v) <= 80:
                        out.add(v)
    # plain words inside regular-expression literals ("GIT binary patch",
    # "delta", ...)
    import re
    words = set()
    for v in out:
        s = v if isinstance(v, str) else v.decode('latin-1')
        for w in re.findall(r'[A-Za-z][A-Za-z ]{3,40}', s):
            w = w.strip()
            if len(w) >= 4:
                words.add(w)
    out |= words
    _cache['v'] = sorted(out, key=repr)
    return _cache['v']


def as_bytes():
    out = []
    for v in literals():
        if isinstance(v, bytes):
            out.append(v)
        else:
            try:
                out.append(v.encode('utf-8'))
            except UnicodeError:
                pass
    return out


def as_text():
    out = []
    for v in literals():
        if isinstance(v, str):
            out.append(v)
        else:
            try:
                out.append(v.decode('latin-1'))
            except UnicodeError:
                pass
    return out
