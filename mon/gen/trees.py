"""Object-model trees: random tree specifications, a builder that goes only
through the public constructors / add_change / add_file / typed attributes
(in random order), and the snapshot the specification denotes."""
import copy

from mon.gen import texts
from mon.gen.codecs_cat import ROUNDTRIP

DOM_CODECS = ['utf-8', 'utf-16', 'utf-32-be', 'latin-1', 'cp037',
              'shift_jis', 'utf-16-le', 'gb18030']


def _enc(rng, p):
    return rng.choice(DOM_CODECS) if rng.random() < p else None


def gen_pre(rng, inherited, p_present=0.6, enc_p=0.25):
    own = _enc(rng, enc_p)
    eff = own or inherited or 'utf-8'
    spec = {'encoding': own,
            'indent': rng.choice([None, None, 0, 1, 2, 4, 7]),
            'line_endings': rng.choice([None, None, 'unix', 'dos']),
            'mimetype': rng.choice([None, None, 'text/plain',
                                    'text/markdown'])}
    r = rng.random()
    if r < p_present:
        spec['text'] = texts.text(rng, eff)
    elif r < p_present + 0.1:
        spec['text'] = ''
    else:
        spec['text'] = None
    return spec


def gen_meta(rng, p_present=0.8, enc_p=0.25):
    spec = {'encoding': _enc(rng, enc_p),
            'format': rng.choice([None, None, 'json'])}
    if rng.random() < 0.12:
        # the common content option "line_endings" on a metadata section
        # (no typed attribute exists for it: set through .options, as a
        # parsed file would carry it)
        spec['line_endings'] = rng.choice(['unix', 'dos'])
    r = rng.random()
    if r < p_present:
        spec['obj'] = texts.json_object(rng)
    elif r < p_present + 0.1:
        spec['obj'] = {}
    else:
        spec['obj'] = None
    return spec


def gen_diff(rng, p_present=0.7, enc_p=0.3):
    own = _enc(rng, enc_p)
    spec = {'encoding': own,
            'line_endings': rng.choice([None, None, 'unix', 'dos']),
            'type': rng.choice([None, None, 'text', 'binary'])}
    r = rng.random()
    if r < p_present:
        spec['data'] = texts.diff_bytes(rng, own)
    elif r < p_present + 0.1:
        spec['data'] = b''
    else:
        spec['data'] = None
    return spec


def gen_tree(rng, max_changes=3, max_files=3, wild=False):
    """wild=True also produces trees that cannot be serialised (files
    without metadata, changes without files...)."""
    main = rng.choice([None, None, 'utf-8', 'latin-1', 'utf-16', 'cp037',
                       'utf-32-be'])
    eff = main or 'utf-8'
    spec = {'encoding': main, 'preamble': gen_pre(rng, eff),
            'meta': gen_meta(rng, 0.6), 'changes': []}
    lo = 0 if wild else 1
    for _ in range(rng.randint(lo, max_changes)):
        cenc = _enc(rng, 0.3)
        ceff = cenc or eff
        ch = {'encoding': cenc, 'preamble': gen_pre(rng, ceff),
              'meta': gen_meta(rng, 0.6), 'files': []}
        for _ in range(rng.randint(lo, max_files)):
            fenc = _enc(rng, 0.25)
            f = {'encoding': fenc,
                 'meta': gen_meta(rng, 0.9 if wild else 1.0),
                 'diff': gen_diff(rng)}
            ch['files'].append(f)
        spec['changes'].append(ch)
    return spec


def _attrs(prefix_pre, spec, kind):
    """(attribute, value) pairs to set on a container for one content
    section specification."""
    out = []
    if spec is None:
        return out
    if kind == 'preamble':
        names = [('text', 'preamble'), ('encoding', 'preamble_encoding'),
                 ('indent', 'preamble_indent'),
                 ('line_endings', 'preamble_line_endings'),
                 ('mimetype', 'preamble_mimetype')]
    elif kind == 'meta':
        names = [('obj', 'meta'), ('encoding', 'meta_encoding'),
                 ('format', 'meta_format')]
    else:
        names = [('data', 'diff'), ('encoding', 'diff_encoding'),
                 ('line_endings', 'diff_line_endings'), ('type', 'diff_type')]
    for k, attr in names:
        v = spec.get(k)
        if v is not None:
            out.append((attr, copy.deepcopy(v)))
    return out


def container_attrs(spec, kinds):
    out = []
    if spec.get('encoding') is not None:
        out.append(('encoding', spec['encoding']))
    for kind in kinds:
        out.extend(_attrs(None, spec.get(kind), kind))
    return out


def _split(rng, attrs):
    attrs = list(attrs)
    rng.shuffle(attrs)
    k = rng.randint(0, len(attrs))
    return dict(attrs[:k]), attrs[k:]


def build(spec, rng, diffx_cls=None):
    """Build a live tree through the public API only."""
    if diffx_cls is None:
        from pydiffx.dom import DiffX as diffx_cls
    kw, later = _split(rng, container_attrs(spec, ('preamble', 'meta')))
    d = diffx_cls(**kw)
    pending = [(d, later)]
    for ch in spec['changes']:
        kw, later = _split(rng, container_attrs(ch, ('preamble', 'meta')))
        c = d.add_change(**kw)
        pending.append((c, later))
        for f in ch['files']:
            kw, later = _split(rng, container_attrs(f, ('meta', 'diff')))
            fs = c.add_file(**kw)
            pending.append((fs, later))
    # late assignments, interleaved across sections
    flat = [(obj, a, v) for obj, later in pending for a, v in later]
    rng.shuffle(flat)
    for obj, a, v in flat:
        setattr(obj, a, v)
    # metadata line_endings: through the options dictionaries
    def _le(container, mspec):
        if mspec and mspec.get('line_endings'):
            container.meta_section.options['line_endings'] = \
                mspec['line_endings']
    _le(d, spec.get('meta'))
    for c, ch in zip(d.changes, spec['changes']):
        _le(c, ch.get('meta'))
        for f, fs in zip(c.files, ch['files']):
            _le(f, fs.get('meta'))
    return d


# ------------------------------------------------- specification -> snapshot
def _content_snap(level, name, spec):
    cls = {'preamble': 'DiffXPreambleSection', 'meta': 'DiffXMetaSection',
           'diff': 'DiffXFileDiffSection'}[name]
    sid = '.' * level + name
    options = {}
    content = None
    if name == 'meta':
        options['format'] = 'json'
        content = {}
    if spec is not None:
        key = {'preamble': 'text', 'meta': 'obj', 'diff': 'data'}[name]
        for k in ('encoding', 'indent', 'line_endings', 'mimetype', 'type',
                  'format'):
            if spec.get(k) is not None:
                options[k] = spec[k]
        if spec.get(key) is not None:
            content = copy.deepcopy(spec[key])
    return {'id': sid, 'cls': cls, 'options': options, 'content': content}


def intended_snapshot(spec):
    root_opts = {'encoding': spec.get('encoding') or 'utf-8',
                 'version': '1.0'}
    root = {'id': 'diffx', 'cls': 'DiffX', 'options': root_opts,
            'sub': [_content_snap(1, 'preamble', spec.get('preamble')),
                    _content_snap(1, 'meta', spec.get('meta'))]}
    for ch in spec['changes']:
        c = {'id': '.change', 'cls': 'DiffXChangeSection',
             'options': ({'encoding': ch['encoding']}
                         if ch.get('encoding') else {}),
             'sub': [_content_snap(2, 'preamble', ch.get('preamble')),
                     _content_snap(2, 'meta', ch.get('meta'))]}
        for f in ch['files']:
            c['sub'].append({
                'id': '..file', 'cls': 'DiffXFileSection',
                'options': ({'encoding': f['encoding']}
                            if f.get('encoding') else {}),
                'sub': [_content_snap(3, 'meta', f.get('meta')),
                        _content_snap(3, 'diff', f.get('diff'))]})
        root['sub'].append(c)
    return root


# ------------------------------------------------------- in-place list edits
def reversed_spec(spec):
    """The specification of the tree one gets by reversing ``changes`` and
    every ``files`` list."""
    out = copy.deepcopy(spec)
    out['changes'].reverse()
    for ch in out['changes']:
        ch['files'].reverse()
    return out


def reverse_in_place(tree):
    """Edit the public lists of a live tree directly (no add_* call)."""
    tree.changes.reverse()
    for c in tree.changes:
        c.files.reverse()
