"""Document recipes: plain-data descriptions of a DiffX document from which we
derive writer calls, DOM construction scripts, canonical/foreign bytes (via
the oracle serializer) and expected reader records.

doc   = {encoding, preamble?, meta?, changes:[change]}
change= {encoding?, preamble?, meta?, files:[file]}
file  = {encoding?, meta, diff?}
pre   = {text, encoding?, indent, line_endings?, mimetype?, explicit}
meta  = {obj, encoding?}
diff  = {data, encoding?, line_endings?, type?}
"""
from mon.gen import texts
from mon.gen.codecs_cat import ROUNDTRIP
from mon.oracle.newline import detect_kind_bytes, newline_bytes, \
    detect_kind_text
from mon.oracle.serializer import prepare_text

INDENTS = [0, 1, 2, 4, 4, 4, 7, 13, None]


def pick_enc(rng, p, pool=ROUNDTRIP):
    return rng.choice(pool) if rng.random() < p else None


def gen_pre(rng, codec, enc_p=0.3, pool=ROUNDTRIP, lookalikes=True):
    own = pick_enc(rng, enc_p, pool)
    eff = own or codec
    t = texts.text(rng, eff, lookalikes=lookalikes)
    pre = {
        'text': t,
        'encoding': own,
        'indent': rng.choice(INDENTS),
        'line_endings': rng.choice([None, None, 'unix', 'dos']),
        'mimetype': rng.choice([None, None, 'text/plain', 'text/markdown']),
        'explicit': rng.random() < 0.5,
    }
    return pre


def gen_meta(rng, enc_p=0.3, pool=ROUNDTRIP):
    m = {'obj': texts.json_object(rng), 'encoding': pick_enc(rng, enc_p,
                                                              pool)}
    if rng.random() < 0.12:
        m['line_endings'] = rng.choice(['unix', 'dos'])
    return m


def gen_diff(rng, enc_p=0.4, pool=ROUNDTRIP):
    own = pick_enc(rng, enc_p, pool)
    return {
        'data': texts.diff_bytes(rng, own),
        'encoding': own,
        'line_endings': rng.choice([None, None, 'unix', 'dos']),
        'type': rng.choice([None, None, 'text', 'binary']),
    }


def gen_doc(rng, max_changes=3, max_files=3, enc_p=0.3, pool=ROUNDTRIP,
            main_pool=None, lookalikes=True):
    main = rng.choice(main_pool or ['utf-8', 'utf-8', 'utf-8', 'latin-1',
                                    'utf-16', 'utf-32-be', 'cp037',
                                    'shift_jis'])
    doc = {'encoding': main, 'changes': []}
    if rng.random() < 0.5:
        doc['preamble'] = gen_pre(rng, main, enc_p, pool, lookalikes)
    if rng.random() < 0.5:
        doc['meta'] = gen_meta(rng, enc_p, pool)
    for _ in range(rng.randint(1, max_changes)):
        ch = {'encoding': pick_enc(rng, enc_p, pool), 'files': []}
        cenc = ch['encoding'] or main
        if rng.random() < 0.5:
            ch['preamble'] = gen_pre(rng, cenc, enc_p, pool, lookalikes)
        if rng.random() < 0.5:
            ch['meta'] = gen_meta(rng, enc_p, pool)
        for _ in range(rng.randint(1, max_files)):
            f = {'encoding': pick_enc(rng, enc_p, pool),
                 'meta': gen_meta(rng, enc_p, pool)}
            if rng.random() < 0.7:
                f['diff'] = gen_diff(rng, enc_p + 0.1, pool)
            ch['files'].append(f)
        doc['changes'].append(ch)
    return doc


def iter_content(doc):
    """Yield (kind, section_dict, inherited_codec)."""
    main = doc.get('encoding')
    if doc.get('preamble'):
        yield 'preamble', doc['preamble'], main
    if doc.get('meta'):
        yield 'meta', doc['meta'], main
    for ch in doc.get('changes', ()):
        cenc = ch.get('encoding') or main
        if ch.get('preamble'):
            yield 'preamble', ch['preamble'], cenc
        if ch.get('meta'):
            yield 'meta', ch['meta'], cenc
        for f in ch.get('files', ()):
            fenc = f.get('encoding') or cenc
            if f.get('meta'):
                yield 'meta', f['meta'], fenc
            if f.get('diff'):
                yield 'diff', f['diff'], None


def annotate_droppable(doc):
    """Mark sections whose line_endings option a foreign producer may omit:
    the spec's first-LF detection on the content bytes must give the kind
    actually used (otherwise omitting it would make the file ill-formed)."""
    for kind, sec, inh in iter_content(doc):
        if kind == 'preamble':
            codec = sec.get('encoding') or inh
            if codec is None:
                data = sec['text'].encode('ascii')
                k = sec.get('line_endings') or detect_kind_bytes(data, None)
                nlb = newline_bytes(k, None)
                if not data.endswith(nlb):
                    data += nlb
                sec['_can_drop_le'] = detect_kind_bytes(data, None) == k
                continue
            raw, k, final, nlb = prepare_text(sec['text'], codec,
                                              sec.get('line_endings'),
                                              sec.get('indent'))
            sec['_can_drop_le'] = (detect_kind_bytes(raw, codec) == k and
                                   detect_kind_text(final) == k)
        elif kind == 'diff':
            codec = sec.get('encoding')
            le = sec.get('line_endings')
            data = sec['data']
            k = le or detect_kind_bytes(data, codec)
            nlb = newline_bytes(k, codec)
            if not data.endswith(nlb):
                data += nlb
            sec['_can_drop_le'] = detect_kind_bytes(data, codec) == k
    return doc


# ------------------------------------------------------------- writer calls
def pre_kwargs(pre):
    kw = {}
    explicit = pre.get('explicit', True)
    for k, default in (('encoding', None), ('indent', 4),
                       ('line_endings', None), ('mimetype', None)):
        v = pre.get(k)
        if explicit or v != default:
            kw[k] = v
    return kw


def writer_calls(doc):
    """List of (method, args, kwargs) for pydiffx's streaming writer. The
    first entry is the constructor ('__init__', (), {encoding: ...})."""
    calls = [('__init__', (), {'encoding': doc.get('encoding')})]
    if doc.get('preamble'):
        calls.append(('write_preamble', (doc['preamble']['text'],),
                      pre_kwargs(doc['preamble'])))
    if doc.get('meta'):
        calls.append(('write_meta', (doc['meta']['obj'],),
                      _enc_kw(doc['meta'])))
    for ch in doc.get('changes', ()):
        calls.append(('new_change', (), _enc_kw(ch)))
        if ch.get('preamble'):
            calls.append(('write_preamble', (ch['preamble']['text'],),
                          pre_kwargs(ch['preamble'])))
        if ch.get('meta'):
            calls.append(('write_meta', (ch['meta']['obj'],),
                          _enc_kw(ch['meta'])))
        for f in ch.get('files', ()):
            calls.append(('new_file', (), _enc_kw(f)))
            if f.get('meta'):
                calls.append(('write_meta', (f['meta']['obj'],),
                              _enc_kw(f['meta'])))
            if f.get('diff'):
                d = f['diff']
                kw = {}
                if d.get('type') is not None:
                    kw['diff_type'] = d['type']
                if d.get('encoding') is not None:
                    kw['encoding'] = d['encoding']
                if d.get('line_endings') is not None:
                    kw['line_endings'] = d['line_endings']
                calls.append(('write_diff', (d['data'],), kw))
    return calls


def _enc_kw(sec):
    kw = {'encoding': sec['encoding']} if sec.get('encoding') else {}
    if sec.get('line_endings') and 'obj' in sec:
        kw['line_endings'] = sec['line_endings']
    return kw


def run_writer(calls, stream, writer_cls=None):
    """Drive the real writer. Returns the writer."""
    if writer_cls is None:
        from pydiffx.writer import DiffXWriter as writer_cls
    name, a, kw = calls[0]
    assert name == '__init__'
    w = writer_cls(stream, *a, **kw)
    for name, a, kw in calls[1:]:
        getattr(w, name)(*a, **kw)
    return w


def shape(doc):
    """Small structural fingerprint (for abstract coverage)."""
    return tuple(len(ch.get('files', ())) for ch in doc.get('changes', ()))


def blank_lines_style(doc, rng):
    """For the "unpadded blank lines" liberty of foreign producers: give
    every preamble the same indent and make some of them start with / consist
    of blank lines only (content shorter than the declared indent)."""
    indent = rng.choice([2, 4, 4, 8])
    first = True
    for kind, sec, inh in iter_content(doc):
        if kind != 'preamble':
            continue
        sec['indent'] = indent
        r = rng.random()
        if first or r < 0.3:
            sec['text'] = rng.choice(['\n', '\n\n', '\n'])
            sec['line_endings'] = 'unix'
        elif r < 0.7:
            sec['text'] = 'para one\n\npara two\n\n\n' + sec['text']
        first = False


# ------------------------------------------------------------------ exotic
# Argument objects that ARE what the API asks for (a str, bytes, int, dict)
# without being instances of the exact built-in class: subclass instances
# (what frameworks hand around: SafeString, numpy.str_, Path-likes ...),
# OrderedDict / dict subclasses with unsorted insertion order, tuples where
# JSON arrays are meant. The bytes written must not depend on any of that.
class StrSub(str):
    __slots__ = ()


class BytesSub(bytes):
    __slots__ = ()


class IntSub(int):
    __slots__ = ()


class DictSub(dict):
    pass


def exotic_json(obj, rng):
    import collections
    if isinstance(obj, dict):
        keys = list(obj)
        rng.shuffle(keys)
        cls = rng.choice([collections.OrderedDict, DictSub, dict,
                          collections.OrderedDict])
        out = cls()
        for k in keys:
            out[StrSub(k) if rng.random() < 0.3 else k] = \
                exotic_json(obj[k], rng)
        return out
    if isinstance(obj, list):
        items = [exotic_json(v, rng) for v in obj]
        return tuple(items) if rng.random() < 0.5 else items
    if isinstance(obj, str) and rng.random() < 0.3:
        return StrSub(obj)
    if isinstance(obj, int) and not isinstance(obj, bool) and \
            rng.random() < 0.3:
        return IntSub(obj)
    return obj


def exotic_calls(calls, rng):
    """The same calls with exotic-but-equivalent argument objects."""
    out = []
    for name, a, kw in calls:
        a = list(a)
        kw = dict(kw)
        for k, v in list(kw.items()):
            if type(v) is str and rng.random() < 0.6:
                kw[k] = StrSub(v)
            elif type(v) is int and rng.random() < 0.6:
                kw[k] = IntSub(v)
        if name == 'write_meta' and a:
            a[0] = exotic_json(a[0], rng)
        elif name == 'write_preamble' and a and type(a[0]) is str and \
                rng.random() < 0.5:
            a[0] = StrSub(a[0])
        elif name == 'write_diff' and a and type(a[0]) is bytes and \
                rng.random() < 0.5:
            a[0] = BytesSub(a[0])
        out.append((name, tuple(a), kw))
    return out
