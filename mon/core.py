"""Observation accumulator shared by all property modules.

An ``Obs`` is what one shard (or one replay) produces: counts of what the
monitors actually evaluated, fingerprints of distinct non-trivial cases,
violations with replayable witnesses, samples, named counters (abstract
coverage, tolerances, monitor events) and reasons for inconclusiveness.
"""
import hashlib
import json
import random
import signal
import sys
import time

# interpreter / process conditions of this shard (recorded with every
# violation so that a replay can reproduce them)
ENV = {'optimize': 0, 'warmup': False}


def jsonable(x):
    """Plain-data -> JSON-safe (bytes become {"__b__": hex})."""
    if isinstance(x, bytes):
        return {'__b__': x.hex()}
    if isinstance(x, dict):
        out = {}
        nonstr = any(not isinstance(k, str) for k in x)
        if nonstr:
            return {'__d__': [[jsonable(k), jsonable(v)]
                              for k, v in x.items()]}
        for k, v in x.items():
            out[k] = jsonable(v)
        return out
    if isinstance(x, (list, tuple)):
        return [jsonable(v) for v in x]
    if isinstance(x, (set, frozenset)):
        return {'__s__': sorted((jsonable(v) for v in x), key=repr)}
    if isinstance(x, float):
        if x != x or x in (float('inf'), float('-inf')):
            return {'__f__': repr(x)}
        return x
    if isinstance(x, str):
        try:
            x.encode('utf-8')
            return x
        except UnicodeEncodeError:
            return {'__u__': [ord(c) for c in x]}
    if x is None or isinstance(x, (int, bool)):
        return x
    return {'__r__': repr(x)}


def unjson(x):
    if isinstance(x, dict):
        if len(x) == 1:
            if '__b__' in x:
                return bytes.fromhex(x['__b__'])
            if '__d__' in x:
                return {_hashable(unjson(k)): unjson(v) for k, v in x['__d__']}
            if '__s__' in x:
                return set(_hashable(unjson(v)) for v in x['__s__'])
            if '__f__' in x:
                return float(x['__f__'])
            if '__u__' in x:
                return ''.join(chr(c) for c in x['__u__'])
            if '__r__' in x:
                return x['__r__']
        return {k: unjson(v) for k, v in x.items()}
    if isinstance(x, list):
        return [unjson(v) for v in x]
    return x


def _hashable(x):
    if isinstance(x, list):
        return tuple(_hashable(v) for v in x)
    return x


def fingerprint(x):
    """64-bit fingerprint of plain data (stable across processes)."""
    if not isinstance(x, bytes):
        x = repr(x).encode('utf-8', 'surrogatepass')
    return int.from_bytes(hashlib.blake2b(x, digest_size=8).digest(), 'big')


def short(x, n=400):
    """Abbreviate a sample for evidence."""
    s = json.dumps(jsonable(x), sort_keys=True)
    if len(s) > n:
        return json.loads(json.dumps(s[:n] + '...(%d chars)' % len(s)))
    return jsonable(x)


class CaseTimeout(Exception):
    pass


class Watchdog(object):
    """Per-case wall-clock watchdog. Firing => inconclusive, not violation."""

    def __init__(self, seconds=20):
        self.seconds = seconds

    def __enter__(self):
        def _h(signum, frame):
            raise CaseTimeout()
        self._old = signal.signal(signal.SIGALRM, _h)
        signal.alarm(self.seconds)
        return self

    def __exit__(self, *a):
        signal.alarm(0)
        signal.signal(signal.SIGALRM, self._old)
        return False


class Obs(object):
    MAX_VIOLATIONS = 200
    MAX_SAMPLES = 5

    def __init__(self, prop, tier='quick', seed=0, shard=(0, 1)):
        self.prop = prop
        self.tier = tier
        self.seed = seed
        self.shard = shard
        self.evaluations = 0
        self.fps = set()
        self.disjoint_distinct = 0
        self.violations = []
        self.violation_count = 0
        self.mech_counts = {}
        self.samples = []
        self.counters = {}
        self.sets = {}
        self.inconclusive = []
        self.exhaustive = None
        self.notes = []
        self.t0 = time.time()

    # -- what the monitors saw ------------------------------------------
    def case(self, key=None, nontrivial=True, n=1):
        """Record that n executions were evaluated; key identifies the case
        (any plain data) when it is non-trivial by the property's rule."""
        self.evaluations += n
        if nontrivial and key is not None:
            self.fps.add(fingerprint(key))

    def distinct_by_construction(self, n):
        """n distinct non-trivial cases whose distinctness is guaranteed by
        the enumerator (disjoint partitions of a finite space)."""
        self.disjoint_distinct += n

    def count(self, name, n=1):
        self.counters[name] = self.counters.get(name, 0) + n

    def seen(self, name, value):
        s = self.sets.setdefault(name, set())
        if len(s) < 5000:
            s.add(value)

    def sample(self, case):
        if len(self.samples) < self.MAX_SAMPLES:
            self.samples.append(short(case, 700))

    def violation(self, mechanism, case, detail=None, prop=None):
        """An oracle disagreement. ``mechanism`` is a stable, value-free
        description of *how* the property is broken; it is what
        known_findings.json is keyed on."""
        self.violation_count += 1
        self.mech_counts[mechanism] = self.mech_counts.get(mechanism, 0) + 1
        if (len(self.violations) < self.MAX_VIOLATIONS and
                self.mech_counts[mechanism] <= 3):
            self.violations.append({
                'property': prop or self.prop,
                'mechanism': mechanism,
                'case': jsonable(case),
                'detail': jsonable(detail),
                'env': {'optimize': sys.flags.optimize,
                        'warmup': bool(ENV.get('warmup'))},
            })

    def inconclusive_because(self, reason):
        if reason not in self.inconclusive:
            self.inconclusive.append(reason)

    # -- (de)serialisation between shard and driver -------------------
    def dump(self):
        return {
            'prop': self.prop, 'tier': self.tier, 'seed': self.seed,
            'shard': list(self.shard),
            'evaluations': self.evaluations,
            'fps': sorted(self.fps),
            'disjoint_distinct': self.disjoint_distinct,
            'violations': self.violations,
            'violation_count': self.violation_count,
            'mech_counts': self.mech_counts,
            'samples': self.samples,
            'counters': self.counters,
            'sets': {k: sorted(v, key=repr) for k, v in self.sets.items()},
            'inconclusive': self.inconclusive,
            'exhaustive': self.exhaustive,
            'notes': self.notes,
            'wall_s': time.time() - self.t0,
        }


def rng_for(seed, prop, tier, shard_index, salt=''):
    h = hashlib.blake2b(('%s|%s|%s|%s|%s' % (seed, prop, tier, shard_index,
                                            salt)).encode(),
                        digest_size=8).digest()
    return random.Random(int.from_bytes(h, 'big'))
