"""Runtime contracts (icontract / deal) on the real pydiffx functions.

The conditions *record and return True*: a failing condition is logged as an
observation and never aborts the execution it observes. Every binding that
was imported by name into another pydiffx module is re-bound to the
contracted function; evaluations are counted, zero means "never reached".

A contract failure is a verdict only in the run of the property that owns
the contract (split_lines -> C16, newline helpers -> C15, hunk parser ->
C14, typed option store -> C19); in other runs it is recorded as a
diagnostic counter.
"""
import sys

from mon.oracle import newline as nlmodel
from mon.oracle import splitter

OWNER = {
    'split_lines': 'C16',
    'get_newline_for_type': 'C15',
    'guess_line_endings': 'C15',
    'get_unified_diff_hunks': 'C14',
    'OptionProperty.__set__': 'C19',
}

_stats = {}
_fail_log = []
_installed = False
_obs = None
_lib = 'none'
_orig = {}


class ContractBroken(Exception):
    pass


def _ev(name):
    s = _stats.setdefault(name, {'evaluated': 0, 'failed': 0})
    s['evaluated'] += 1
    return s


def _fail(name, cond, witness):
    _stats[name]['failed'] += 1
    if len(_fail_log) < 50:
        _fail_log.append((name, cond, witness))


# ---------------------------------------------------------------- conditions
def split_lines_post(data, newline, keep_ends, result):
    _ev('split_lines')
    try:
        orig = _orig['split_lines']
        if keep_ends:
            kept = result
            fails = splitter.check_keep(data, newline, kept)
        else:
            kept = orig(data, newline, keep_ends=True)
            fails = splitter.check_keep(data, newline, kept)
            fails += splitter.check_nokeep(data, newline, kept, result)
        for f in fails:
            _fail('split_lines', f, {'data': data[:200], 'newline': newline,
                                     'keep_ends': bool(keep_ends)})
    except Exception as e:  # the monitor must never disturb the run
        _fail('split_lines', 'monitor_error:%s' % type(e).__name__,
              {'data': data[:200] if isinstance(data, bytes) else repr(data),
               'newline': newline})
    return True


def _codec_ok(encoding):
    import codecs
    try:
        ci = codecs.lookup(encoding or 'ascii')
    except Exception:
        return False
    return getattr(ci, '_is_text_encoding', True)


def get_newline_for_type_post(line_endings, encoding, result):
    _ev('get_newline_for_type')
    try:
        if line_endings in nlmodel.NL and _codec_ok(encoding):
            want = nlmodel.newline_bytes(line_endings, encoding)
            if want is not None and result != want:
                _fail('get_newline_for_type', 'newline_not_bom_free_encoding',
                      {'line_endings': line_endings, 'encoding': encoding,
                       'got': result, 'want': want})
    except Exception:
        pass
    return True


def guess_line_endings_post(text, encoding, result):
    _ev('guess_line_endings')
    try:
        kind, nl = result
        if isinstance(text, bytes):
            if _codec_ok(encoding) and kind in nlmodel.NL:
                want = nlmodel.newline_bytes(kind, encoding)
                if want is not None and nl != want:
                    _fail('guess_line_endings',
                          'newline_not_bom_free_encoding',
                          {'encoding': encoding, 'kind': kind, 'got': nl,
                           'want': want})
        else:
            if nl != nlmodel.NL.get(kind):
                _fail('guess_line_endings', 'str_newline_mismatch',
                      {'kind': kind, 'got': nl})
            elif kind != nlmodel.detect_kind_text(text):
                _fail('guess_line_endings', 'first_line_rule',
                      {'text': text[:100], 'kind': kind})
    except Exception:
        pass
    return True


def hunks_post(lines, ignore_garbage, result):
    _ev('get_unified_diff_hunks')
    try:
        hunks = result['hunks']
        ins = sum(h['modified']['num_lines_changed'] for h in hunks)
        dels = sum(h['orig']['num_lines_changed'] for h in hunks)
        w = {'lines': [bytes(x)[:60] for x in list(lines)[:40]],
             'ignore_garbage': bool(ignore_garbage)}
        if result['total_inserts'] != ins or result['total_deletes'] != dels:
            _fail('get_unified_diff_hunks', 'totals_not_sum_of_hunks', w)
        if not (0 <= result['num_processed_lines'] <= len(lines)):
            _fail('get_unified_diff_hunks', 'processed_out_of_range', w)
    except Exception as e:
        _fail('get_unified_diff_hunks',
              'monitor_error:%s' % type(e).__name__, {})
    return True


def option_set_post(self, instance, value):
    _ev('OptionProperty.__set__')
    try:
        ok = (instance.options.get(self.option_name) is value and
              isinstance(value, self.data_type) and
              (not self.choices or value in self.choices))
        if not ok:
            _fail('OptionProperty.__set__', 'stored_value_not_validated',
                  {'option': self.option_name, 'value': repr(value)})
    except Exception:
        pass
    return True


# -------------------------------------------------------------- installation
def install(obs=None):
    """Attach the contracts and re-bind by-name imports. Idempotent."""
    global _installed, _obs, _lib
    _obs = obs
    if _installed:
        return
    _installed = True
    import pydiffx.utils.text as text
    import pydiffx.utils.unified_diffs as ud
    import pydiffx.dom.properties as props
    try:
        import icontract
        _lib = 'icontract %s' % getattr(icontract, '__version__', '?')

        def ensure(cond):
            return icontract.ensure(cond, error=ContractBroken)
    except Exception:  # degrade to a hand-written wrapper, same conditions
        import functools
        import inspect
        _lib = 'hand-written wrappers (icontract unavailable)'

        def ensure(cond):
            def deco(fn):
                sig = inspect.signature(fn)
                names = [p for p in inspect.signature(cond).parameters
                         if p != 'result']

                @functools.wraps(fn)
                def wrapper(*a, **kw):
                    result = fn(*a, **kw)
                    ba = sig.bind(*a, **kw)
                    ba.apply_defaults()
                    cond(result=result, **{n: ba.arguments[n]
                                           for n in names})
                    return result
                return wrapper
            return deco

    targets = [
        (text, 'split_lines', split_lines_post),
        (text, 'get_newline_for_type', get_newline_for_type_post),
        (text, 'guess_line_endings', guess_line_endings_post),
        (ud, 'get_unified_diff_hunks', hunks_post),
    ]
    rebound = {}
    for mod, name, cond in targets:
        orig = getattr(mod, name, None)
        if orig is None:
            continue
        _orig[name] = orig
        wrapped = ensure(cond)(orig)
        _stats.setdefault(name, {'evaluated': 0, 'failed': 0})
        for m in list(sys.modules.values()):
            mn = getattr(m, '__name__', '')
            if not mn.startswith('pydiffx') and m is not mod:
                continue
            if getattr(m, name, None) is orig:
                setattr(m, name, wrapped)
                rebound.setdefault(name, []).append(mn)
    # make sure the modules that import by name are loaded, then re-bind
    import pydiffx.reader, pydiffx.writer, pydiffx.dom.objects  # noqa
    for mod, name, cond in targets:
        orig = _orig.get(name)
        wrapped = getattr(mod, name)
        for mn in ('pydiffx.reader', 'pydiffx.writer', 'pydiffx.dom.objects'):
            m = sys.modules[mn]
            if getattr(m, name, None) is orig:
                setattr(m, name, wrapped)
                rebound.setdefault(name, []).append(mn)
    try:
        orig_set = props.OptionProperty.__set__
        _orig['OptionProperty.__set__'] = orig_set
        props.OptionProperty.__set__ = ensure(option_set_post)(orig_set)
        _stats.setdefault('OptionProperty.__set__',
                          {'evaluated': 0, 'failed': 0})
    except Exception:
        pass
    _stats['_rebound'] = {'evaluated': sum(len(v) for v in rebound.values()),
                          'failed': 0}


def original(name):
    return _orig[name]


def failures():
    return list(_fail_log)


def clear_failures():
    del _fail_log[:]


def report(obs):
    """Turn recorded contract failures into violations (owner property only)
    or diagnostic counters."""
    seen = {}
    for name, cond, witness in _fail_log:
        owner = OWNER.get(name)
        if owner == obs.prop:
            key = (name, cond)
            seen[key] = seen.get(key, 0) + 1
            if seen[key] <= 3:
                obs.violation('contract:%s:%s' % (name, cond),
                              {'kind': 'contract', 'function': name,
                               'witness': witness}, witness)
        else:
            obs.count('foreign_contract_failure:%s:%s' % (name, cond))
    # failures beyond the log cap
    for name, st in _stats.items():
        if name.startswith('_'):
            continue
        if st['failed'] and OWNER.get(name) == obs.prop:
            obs.count('contract_failed:%s' % name, st['failed'])
    obs.notes.append('contracts via %s' % _lib)


def stats():
    return {k: dict(v) for k, v in _stats.items()}
