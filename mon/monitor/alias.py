"""id()-graph aliasing detector for live object-model trees.

Walks the mutable containers (dict / list / set / bytearray) reachable from a
tree through public attributes (options, content, subsection lists) and
reports objects that two different trees (or two different sections of one
tree) can both reach. A hit only nominates a candidate; the property module
confirms it behaviourally (mutate through one, observe the other)."""

MUTABLE = (dict, list, set, bytearray)


def _walk_value(v, path, out, seen):
    if isinstance(v, MUTABLE):
        if id(v) in seen:
            return
        seen.add(id(v))
        out.append((id(v), path, v))
        if isinstance(v, dict):
            for k, x in v.items():
                _walk_value(x, path + '[%r]' % (k,), out, seen)
        elif isinstance(v, list):
            for i, x in enumerate(v):
                _walk_value(x, path + '[%d]' % i, out, seen)


def reachable(tree, label):
    """List of (id, path, object) for every mutable container of a tree,
    one entry per (section, object)."""
    out = []

    def sec(s, path):
        seen = set()
        _walk_value(s.options, path + '.options', out, seen)
        if hasattr(s, 'content'):
            _walk_value(s.content, path + '.content', out, seen)
        for name in ('changes', 'files'):
            lst = getattr(s, name, None)
            if isinstance(lst, list):
                out.append((id(lst), path + '.' + name, lst))
        subs = getattr(s, 'subsections', None)
        if subs is not None:
            for i, x in enumerate(list(subs)):
                sec(x, '%s/%d' % (path, i))
    sec(tree, label)
    return out


def shared(entries_by_owner):
    """entries_by_owner: {owner_label: reachable(...)}. Returns list of
    (object, [(owner, path), ...]) for objects reachable from more than one
    owner *or* from two different sections of the same owner."""
    where = {}
    objs = {}
    for owner, entries in entries_by_owner.items():
        for oid, path, obj in entries:
            where.setdefault(oid, []).append((owner, path))
            objs[oid] = obj
    out = []
    for oid, places in where.items():
        secs = set((o, p.split('.')[0]) for o, p in places)
        if len(secs) > 1:
            out.append((objs[oid], places))
    return out
