"""Source-free fail-points: a sys.monitoring LINE callback raises
``InjectedFault`` at the k-th eligible pydiffx line executed after arming.

Eligible = a statement line of non-test pydiffx code that is not the header
line of a ``with`` statement (its LINE event on block exit precedes
``__exit__`` and would model a fault no real execution can have).
"""
import ast
import os
import sys

from mon import env


class InjectedFault(Exception):
    pass


_with_lines = {}
_state = {'armed': False, 'count': 0, 'target': None, 'fired_at': None,
          'root': None, 'on': False}
_TOOL = None


def _with_header_lines(filename):
    if filename in _with_lines:
        return _with_lines[filename]
    lines = set()
    try:
        with open(filename, 'rb') as fh:
            tree = ast.parse(fh.read())
        for node in ast.walk(tree):
            if isinstance(node, (ast.With, ast.AsyncWith)):
                lines.add(node.lineno)
                for item in node.items:
                    lines.add(item.context_expr.lineno)
            elif isinstance(node, ast.Try):
                # clean-up code (finally bodies, except handlers) runs
                # BECAUSE something failed; a further fault on the statement
                # that precedes the close() call models no real execution
                for part in list(node.finalbody) + [
                        st for h in node.handlers for st in h.body]:
                    for sub in ast.walk(part):
                        if hasattr(sub, 'lineno'):
                            lines.add(sub.lineno)
    except Exception:
        pass
    _with_lines[filename] = lines
    return lines


def available():
    return getattr(sys, 'monitoring', None) is not None


def start():
    global _TOOL
    mon = sys.monitoring
    _state['root'] = os.path.realpath(
        os.path.join(env.REPO, 'python', 'pydiffx')) + os.sep
    _TOOL = mon.DEBUGGER_ID
    mon.use_tool_id(_TOOL, 'verif-failpoints')

    def on_line(code, line):
        fn = code.co_filename
        root = _state['root']
        if not fn.startswith(root) or '/tests/' in fn:
            return mon.DISABLE
        if not _state['armed']:
            return None
        if line in _with_header_lines(fn):
            return None
        k = _state['count']
        _state['count'] = k + 1
        if _state['target'] is not None and k == _state['target']:
            _state['fired_at'] = '%s:%s' % (fn[len(root):], code.co_qualname)
            _state['target'] = None
            raise InjectedFault('fail-point %d at %s:%d' % (k, fn, line))
        return None

    mon.register_callback(_TOOL, mon.events.LINE, on_line)
    mon.set_events(_TOOL, mon.events.LINE)
    _state['on'] = True


def stop():
    if not _state['on']:
        return
    mon = sys.monitoring
    mon.set_events(_TOOL, 0)
    mon.register_callback(_TOOL, mon.events.LINE, None)
    mon.free_tool_id(_TOOL)
    _state['on'] = False


def begin(target=None):
    """Reset counters for one execution; inject at eligible line ``target``
    (None = only count)."""
    _state['armed'] = False
    _state['count'] = 0
    _state['target'] = target
    _state['fired_at'] = None


def arm():
    _state['armed'] = True


def end():
    _state['armed'] = False
    return _state['count'], _state['fired_at']
