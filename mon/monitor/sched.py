"""Controlled concurrency: independent library objects driven from several
threads under a seeded baton scheduler.

Exactly one worker thread runs at a time. Every statement line of non-test
pydiffx code is a scheduling point (sys.monitoring LINE event): with
probability ``p`` the running thread hands the baton to another runnable
worker drawn from the PRNG and waits for it to come back. The interleaving is
therefore a function of the seed and is dense even for tiny inputs - a switch
between two consecutive statements of a helper, which free-running threads
hit once in thousands of runs, is routine here.

Robustness: a worker that waits for the baton longer than ``FORCE_S`` carries
on beside the holder (library code that blocks on a lock held by a
descheduled thread would otherwise dead-lock the schedule) and steps back in
line at its next scheduling point once the baton is elsewhere; forced
hand-overs are counted and make the run non-deterministic but never wrong. What is compared is only the
*result* of each worker against the result of the same work done alone.
"""
import os
import sys
import threading

from mon import env

FORCE_S = 0.05
_TOOL = 3
_state = {'on': False, 'root': None, 'active': None, 'extra': ()}


class Sched(object):
    def __init__(self, rng, p=0.08):
        self.rng = rng
        self.p = p
        self.sems = []
        self.alive = []
        self.idx = {}
        self.holder = None
        self.switches = 0
        self.forced = 0
        self.points = 0

    def _wait(self, i):
        """Wait for the baton; take it by force after FORCE_S (the holder
        may be blocked on a lock this thread owns, or simply be done)."""
        while not self.sems[i].acquire(timeout=FORCE_S):
            h = self.holder
            if h is None or h == i or not self.alive[h]:
                break
            # the holder had FORCE_S to reach a scheduling point and hand
            # over; it did not: carry on beside it
            self.forced += 1
            break
        self.holder = i

    # -- called from worker threads at every pydiffx statement line -------
    def point(self):
        i = self.idx.get(threading.get_ident())
        if i is None:
            return
        if self.holder != i:
            # running without the baton (after a forced hand-over): step
            # back in line
            self._wait(i)
            return
        self.points += 1
        if self.rng.random() >= self.p:
            return
        others = [j for j in range(len(self.alive)) if self.alive[j] and
                  j != i]
        if not others:
            return
        j = self.rng.choice(others)
        self.switches += 1
        self.holder = j
        self.sems[j].release()
        self._wait(i)

    def _finish(self, i):
        self.alive[i] = False
        others = [j for j in range(len(self.alive)) if self.alive[j]]
        if others:
            j = self.rng.choice(others)
            if self.holder == i or self.holder is None:
                self.holder = j
            self.sems[j].release()
        else:
            self.holder = None

    def run(self, thunks, timeout=120):
        """Run the thunks as concurrent workers; returns a list of
        ('ok', value) / ('exc', exception) / ('hung', None)."""
        n = len(thunks)
        self.sems = [threading.Semaphore(0) for _ in range(n)]
        self.alive = [True] * n
        results = [('hung', None)] * n
        first = self.rng.randrange(n)
        self.holder = first

        def worker(i):
            self.idx[threading.get_ident()] = i
            if not self.sems[i].acquire(timeout=timeout):
                self.forced += 1
            try:
                results[i] = ('ok', thunks[i]())
            except BaseException as e:  # noqa - reported to the caller
                results[i] = ('exc', e)
            finally:
                self.idx.pop(threading.get_ident(), None)
                self._finish(i)

        threads = [threading.Thread(target=worker, args=(i,), daemon=True)
                   for i in range(n)]
        _state['active'] = self
        try:
            for t in threads:
                t.start()
            self.sems[first].release()
            for t in threads:
                t.join(timeout)
        finally:
            _state['active'] = None
        return results


def available():
    return getattr(sys, 'monitoring', None) is not None


def start():
    if _state['on'] or not available():
        return
    mon = sys.monitoring
    _state['root'] = os.path.realpath(
        os.path.join(env.REPO, 'python', 'pydiffx')) + os.sep
    mon.use_tool_id(_TOOL, 'verif-sched')

    def on_line(code, line):
        fn = code.co_filename
        if (not fn.startswith(_state['root']) or '/tests/' in fn) and \
                fn not in _state['extra']:
            return mon.DISABLE
        s = _state['active']
        if s is not None:
            s.point()
        return None

    mon.register_callback(_TOOL, mon.events.LINE, on_line)
    mon.set_events(_TOOL, mon.events.LINE)
    _state['on'] = True


def stop():
    if not _state['on']:
        return
    mon = sys.monitoring
    mon.set_events(_TOOL, 0)
    mon.register_callback(_TOOL, mon.events.LINE, None)
    mon.free_tool_id(_TOOL)
    _state['on'] = False


class session(object):
    """``with sched.session():`` - scheduling points exist only inside."""

    def __enter__(self):
        start()
        return self

    def __exit__(self, *a):
        stop()
        return False


def concurrently(rng, thunks, p=0.08, extra_files=()):
    """Run the thunks under a fresh schedule (inside a session). Returns
    (results, sched). ``extra_files``: further source files whose statement
    lines are scheduling points (the engine a pydiffx component runs on)."""
    s = Sched(rng, p)
    was_on = _state['on']
    if tuple(extra_files) != _state['extra']:
        if was_on:
            stop()
            was_on = False
        _state['extra'] = tuple(extra_files)
    start()
    try:
        res = s.run(thunks)
    finally:
        if not was_on:
            stop()
    return res, s
