"""Instrumented byte streams: every read/seek/tell/write/close is an event.

Checkers over the event log:
  * append-only (writer side): every write lands at the end of the stream,
    no seek / truncate ever happens;
  * zero-write window: no write between two marks (a rejected call);
  * consumption conservation (reader side): the net effect of reads and
    seek-backs is that every byte is consumed exactly once, in order;
  * closed-at-exit.
"""
import io


class MonitoredStream(object):
    """Wraps a binary stream; quacks like io.BytesIO for pydiffx's needs."""

    def __init__(self, initial=b'', raw=None):
        self._s = raw if raw is not None else io.BytesIO(initial)
        self.events = []
        self.marks = []
        # chunks handed to write() that are not immutable bytes: a stream
        # may keep what it is given (queue / list backed sinks), so a
        # buffer that is modified after the write rewrites bytes that were
        # already output
        self.retained = []

    # -- reader side --------------------------------------------------
    def read(self, n=-1):
        p = self._s.tell()
        d = self._s.read(n)
        self.events.append(('read', p, n, len(d)))
        return d

    def readline(self, *a):
        p = self._s.tell()
        d = self._s.readline(*a)
        self.events.append(('read', p, -2, len(d)))
        return d

    def seek(self, off, whence=0):
        p = self._s.tell()
        r = self._s.seek(off, whence)
        self.events.append(('seek', p, off, whence, self._s.tell()))
        return r

    def tell(self):
        return self._s.tell()

    # -- writer side ----------------------------------------------------
    def write(self, data):
        p = self._s.tell()
        end = self._size()
        n = self._s.write(data)
        self.events.append(('write', p, len(data), end))
        if type(data) is not bytes and len(self.retained) < 10000:
            try:
                self.retained.append((len(self.events) - 1, data,
                                      bytes(data)))
            except Exception:
                pass
        return n

    def truncate(self, *a):
        self.events.append(('truncate', self._s.tell()))
        return self._s.truncate(*a)

    def flush(self):
        return self._s.flush()

    def _size(self):
        if isinstance(self._s, io.BytesIO):
            return len(self._s.getbuffer())
        p = self._s.tell()
        self._s.seek(0, 2)
        e = self._s.tell()
        self._s.seek(p)
        return e

    def getvalue(self):
        if isinstance(self._s, io.BytesIO):
            return self._s.getvalue()
        p = self._s.tell()
        self._s.seek(0)
        d = self._s.read()
        self._s.seek(p)
        return d

    def close(self):
        self.events.append(('close',))
        self._s.close()

    @property
    def closed(self):
        return self._s.closed

    def readable(self):
        return True

    def writable(self):
        return True

    def seekable(self):
        return True

    def __enter__(self):
        return self

    def __exit__(self, *a):
        self.close()
        return False

    def __getattr__(self, name):
        # anything else the wrapped stream offers (peek, readinto, fileno,
        # name ...) is passed through, so that a reader that probes for
        # optional stream features sees what the real stream has
        if name.startswith('_'):
            raise AttributeError(name)
        return getattr(self._s, name)

    # -- marks ------------------------------------------------------------
    def mark(self):
        return len(self.events)


def writes_between(stream, m0, m1=None):
    ev = stream.events[m0:m1]
    return sum(e[2] for e in ev if e[0] == 'write')


def check_append_only(stream, since=0):
    """Names of violated append-only rules."""
    fails = []
    for idx, obj, snap in stream.retained:
        try:
            if bytes(obj) != snap:
                fails.append('written_buffer_modified_after_write')
                break
        except Exception:
            pass
    for e in stream.events[since:]:
        if e[0] == 'write' and e[1] != e[3]:
            fails.append('write_not_at_end')
        elif e[0] == 'seek':
            fails.append('seek_on_output')
        elif e[0] == 'truncate':
            fails.append('truncate_on_output')
    return fails


def consumption(stream):
    """Replay read/seek events; return (fails, consumed_upto).

    Conservation: position only moves forward through reads; a seek may only
    go *back* inside the most recent read (un-reading look-ahead); no byte is
    skipped by a forward seek."""
    fails = []
    pos = getattr(stream, 'start', 0)
    high = pos        # highest byte ever returned by a read
    last_read = (pos, pos)
    for e in stream.events:
        if e[0] == 'read':
            p, n, got = e[1], e[2], e[3]
            if p != pos:
                fails.append('position_jump')
            last_read = (p, p + got)
            pos = p + got
            high = max(high, pos)
        elif e[0] == 'seek':
            newpos = e[4]
            if newpos > pos:
                fails.append('forward_seek_skips_bytes')
            elif newpos < getattr(stream, 'start', 0):
                fails.append('seek_before_document_start')
            elif newpos < last_read[0]:
                fails.append('seek_back_before_last_read')
            pos = newpos
    return fails, pos, high
