"""Reach counters and line coverage of the code under test.

* PY_START (sys.monitoring): how often each pydiffx function was entered;
  foreign code is DISABLEd so the overhead stays at a few %.
* LINE: which statement lines of each pydiffx function were executed at least
  once. Every location is DISABLEd after its first hit, so the cost is one
  callback per distinct line per process.

Both are evidence of what the workload actually drove ("the monitors saw"),
never a verdict.
"""
import os
import sys

from mon import env

_counts = {}
_codes = {}          # key -> code object
_lines = {}          # key -> set of executed line numbers
_on = False
_TOOL = None
_root = None


def _key(code):
    fn = code.co_filename
    return '%s:%s' % (fn[len(_root):], code.co_qualname)


def start():
    global _on, _TOOL, _root
    mon = getattr(sys, 'monitoring', None)
    if mon is None or _on:
        return
    _root = os.path.realpath(os.path.join(env.REPO, 'python',
                                          'pydiffx')) + os.sep
    _TOOL = mon.PROFILER_ID
    try:
        mon.use_tool_id(_TOOL, 'verif-reach')
    except ValueError:
        return

    def mine(code):
        fn = code.co_filename
        return fn.startswith(_root) and os.sep + 'tests' + os.sep not in fn

    def on_start(code, offset):
        if mine(code):
            k = _key(code)
            _counts[k] = _counts.get(k, 0) + 1
            if k not in _codes:
                _codes[k] = code
            return None
        return mon.DISABLE

    def on_line(code, line):
        if mine(code):
            _lines.setdefault(_key(code), set()).add(line)
        return mon.DISABLE

    mon.register_callback(_TOOL, mon.events.PY_START, on_start)
    mon.register_callback(_TOOL, mon.events.LINE, on_line)
    mon.set_events(_TOOL, mon.events.PY_START | mon.events.LINE)
    _on = True


def stop():
    global _on
    mon = getattr(sys, 'monitoring', None)
    if mon is None or not _on:
        return
    mon.set_events(_TOOL, 0)
    mon.register_callback(_TOOL, mon.events.PY_START, None)
    mon.register_callback(_TOOL, mon.events.LINE, None)
    mon.free_tool_id(_TOOL)
    _on = False


def counts():
    return dict(_counts)


def line_coverage():
    """{function key: {'first': first line, 'all': [relative lines],
    'hit': [relative lines]}} with line numbers relative to the function's
    first line (so the report survives edits elsewhere in the file)."""
    out = {}
    for k, code in _codes.items():
        if code.co_qualname.endswith('<lambda>') or \
                '<genexpr>' in code.co_qualname or \
                '<listcomp>' in code.co_qualname or \
                '<dictcomp>' in code.co_qualname:
            continue
        first = code.co_firstlineno
        allv = sorted(set(l for _, _, l in code.co_lines()
                          if l is not None and l > first))
        if not allv:
            continue
        hit = sorted(l for l in _lines.get(k, ()) if l > first)
        out[k] = {'all': [l - first for l in allv],
                  'hit': [l - first for l in hit if l in set(allv)]}
    return out
