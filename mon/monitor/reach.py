"""Reach counters: how often each pydiffx function was entered (PY_START via
sys.monitoring, foreign code DISABLEd so the overhead stays at a few %)."""
import os
import sys

from mon import env

_counts = {}
_on = False
_TOOL = None


def start():
    global _on, _TOOL
    mon = getattr(sys, 'monitoring', None)
    if mon is None or _on:
        return
    root = os.path.realpath(os.path.join(env.REPO, 'python', 'pydiffx')) + os.sep
    _TOOL = mon.PROFILER_ID
    try:
        mon.use_tool_id(_TOOL, 'verif-reach')
    except ValueError:
        return

    def on_start(code, offset):
        fn = code.co_filename
        if fn.startswith(root) and os.sep + 'tests' + os.sep not in fn:
            key = '%s:%s' % (fn[len(root):], code.co_qualname)
            _counts[key] = _counts.get(key, 0) + 1
            return None
        return mon.DISABLE

    mon.register_callback(_TOOL, mon.events.PY_START, on_start)
    mon.set_events(_TOOL, mon.events.PY_START)
    _on = True


def stop():
    global _on
    mon = getattr(sys, 'monitoring', None)
    if mon is None or not _on:
        return
    mon.set_events(_TOOL, 0)
    mon.register_callback(_TOOL, mon.events.PY_START, None)
    mon.free_tool_id(_TOOL)
    _on = False


def counts():
    return dict(_counts)
