"""Hand-written recogniser for DiffX section header lines (spec
section-format.rst, "Section Headers" and "Header Options"); no regexes, no
pydiffx imports.

header  = "#" "."{0,3} name ":" [ " " pair *( ", " pair ) ]
pair    = key "=" value
key     = ALPHA *( ALPHA / DIGIT / "_" / "-" )
value   = 1*( ALPHA / DIGIT / "/" / "." / "_" / "-" )
name    = one of diffx preamble meta change file diff
"""

NAMES = (b'diffx', b'preamble', b'meta', b'change', b'file', b'diff')

_ALPHA = frozenset(b'abcdefghijklmnopqrstuvwxyzABCDEFGHIJKLMNOPQRSTUVWXYZ')
_DIGIT = frozenset(b'0123456789')
_KEY_REST = _ALPHA | _DIGIT | frozenset(b'_-')
_VALUE = _ALPHA | _DIGIT | frozenset(b'/._-')


def is_key(b):
    return (len(b) > 0 and b[0] in _ALPHA and
            all(c in _KEY_REST for c in b[1:]))


def is_value(b):
    return len(b) > 0 and all(c in _VALUE for c in b)


def is_decimal(b):
    """-?[0-9]+ : option values every reader must report as integers."""
    if b[:1] == b'-':
        b = b[1:]
    return len(b) > 0 and all(c in _DIGIT for c in b)


def parse_options(tail):
    """tail = bytes after '<id>:'. Returns list of (key, value) byte pairs
    or None if the tail is not a valid option list."""
    if tail == b'':
        return []
    if tail[:1] != b' ':
        return None
    body = tail[1:]
    if body == b'':
        return None
    pairs = []
    for chunk in body.split(b', '):
        if b'=' not in chunk:
            return None
        k, v = chunk.split(b'=', 1)
        if not is_key(k) or not is_value(v):
            return None
        pairs.append((k, v))
    return pairs


def parse_header(line):
    """line = header line without its line terminator. Returns
    (section_id str, level int, name str, pairs) or None."""
    if line[:1] != b'#':
        return None
    i = 1
    while i < len(line) and line[i:i + 1] == b'.':
        i += 1
    level = i - 1
    if level > 3:
        return None
    for n in NAMES:
        if line[i:i + len(n) + 1] == n + b':':
            name = n
            break
    else:
        return None
    tail = line[i + len(name) + 1:]
    pairs = parse_options(tail)
    if pairs is None:
        return None
    return (('.' * level) + name.decode(), level, name.decode(), pairs)


def big_int(s):
    """int(s) for a decimal string of any length (the interpreter's
    int<->str digit limit does not apply to arithmetic)."""
    neg = s[:1] == '-'
    digits = s[1:] if neg else s
    n = 0
    for i in range(0, len(digits), 2000):
        chunk = digits[i:i + 2000]
        n = n * (10 ** len(chunk)) + int(chunk)
    return -n if neg else n


def beyond_int_limit(s):
    import sys
    lim = getattr(sys, 'get_int_max_str_digits', lambda: 0)()
    return bool(lim) and len(s.lstrip('-')) > lim


def convert(pairs):
    """Reader-visible options: str keys; decimal values as int."""
    out = {}
    for k, v in pairs:
        out[k.decode('ascii')] = (
            v.decode('ascii') if not is_decimal(v) else
            big_int(v.decode('ascii')) if not beyond_int_limit(
                v.decode('ascii')) else v.decode('ascii'))
    return out
