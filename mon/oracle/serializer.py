"""Specification-derived DiffX serializer (imports nothing from pydiffx).

``serialize(doc)`` turns a document recipe (see mon/gen/recipe.py) into the
canonical bytes a conformant writer must produce, plus a *layout*: for every
section its id, level, logical line, options as a reader must report them,
the content value a reader must return, and byte offsets. ``style`` switches
on the liberties other producers may take (shuffled options, dropped
optional options, blank lines, CRLF header lines, other JSON layouts).
"""
from mon.oracle import jsoncanon
from mon.oracle.newline import NL, newline_bytes, detect_kind_text, \
    detect_kind_bytes
from mon.oracle.splitter import scan_split, count_occurrences


class Style(object):
    """Liberties of a foreign producer. Default = canonical."""

    def __init__(self, rng=None, shuffle=False, drop=(), blank=0,
                 crlf_headers=False, json_style='canonical',
                 trailing_blank=0, extra=None, meta_line_endings=False,
                 unpadded_blank=False):
        self.rng = rng
        self.shuffle = shuffle
        self.drop = set(drop)        # optional options a producer may omit
        self.blank = blank           # max blank lines before a header
        self.crlf_headers = crlf_headers
        self.json_style = json_style
        self.trailing_blank = trailing_blank
        self.extra = extra           # callable(section_index, sid) -> pairs
        #: metadata headers carry the (common content) line_endings option
        self.meta_line_endings = meta_line_endings
        #: blank lines of an indented preamble carry no indentation
        #: (editors strip trailing whitespace)
        self.unpadded_blank = unpadded_blank

    @property
    def canonical(self):
        return not (self.shuffle or self.drop or self.blank or
                    self.crlf_headers or self.json_style != 'canonical' or
                    self.trailing_blank or self.extra or
                    self.meta_line_endings or self.unpadded_blank)


CANON = Style()


def fmt_header(sid, options, style=CANON, index=0):
    """Header line bytes. ``options`` is a list of (key, value) pairs with
    None values already removed."""
    pairs = sorted(options, key=lambda kv: kv[0])
    if style.shuffle and style.rng is not None:
        style.rng.shuffle(pairs)
    if style.extra is not None:
        pairs = style.extra(index, sid, pairs)
    s = '#%s:' % sid
    if pairs:
        s += ' ' + ', '.join('%s=%s' % (k, v) for k, v in pairs)
    eol = b'\r\n' if style.crlf_headers else b'\n'
    return s.encode('ascii') + eol


def effective(own, inherited):
    return own if own else inherited


def indent_bytes(data, nl, indent, skip_blank=False):
    if not indent:
        return data
    pad = b' ' * indent
    return b''.join(line if (skip_blank and line == nl) else pad + line
                    for line in scan_split(data, nl))


def prepare_text(text, codec, line_endings, indent, skip_blank=False):
    """Encode text, append the BOM-free newline if missing, indent after
    encoding. Returns (bytes, kind, final_text, nl_bytes)."""
    kind = line_endings or detect_kind_text(text)
    nlb = newline_bytes(kind, codec)
    data = text.encode(codec)
    final_text = text
    if not data.endswith(nlb):
        data += nlb
        final_text = text + NL[kind]
    return indent_bytes(data, nlb, indent, skip_blank), kind, final_text, nlb


def prepare_bytes(data, codec, line_endings):
    kind = line_endings or detect_kind_bytes(data, codec)
    nlb = newline_bytes(kind, codec)
    if not data.endswith(nlb):
        data = data + nlb
    return data, kind, nlb


class Layout(list):
    pass


def serialize(doc, style=CANON):
    """Return (bytes, layout)."""
    out = []
    layout = Layout()
    state = {'off': 0, 'line': 0, 'idx': 0}

    def put_header(sid, level, options, kind, content=None, raw=None,
                   extra_info=None):
        if style.blank and style.rng is not None and state['idx'] > 0:
            for _ in range(style.rng.randint(0, style.blank)):
                b = b'\r\n' if style.crlf_headers else b'\n'
                out.append(b)
                state['off'] += len(b)
        h = fmt_header(sid, options, style, state['idx'])
        rec = {
            'id': sid, 'level': level, 'line': state['line'], 'kind': kind,
            'options': dict(_conv(options_of(h))),
            'hoff': state['off'], 'hlen': len(h),
        }
        out.append(h)
        state['off'] += len(h)
        state['line'] += 1
        state['idx'] += 1
        if raw is not None:
            rec['coff'] = state['off']
            rec['clen'] = len(raw)
            rec['content'] = content
            out.append(raw)
            state['off'] += len(raw)
        if extra_info:
            rec.update(extra_info)
        layout.append(rec)
        return rec

    def put_preamble(pre, level, inherited):
        codec = effective(pre.get('encoding'), inherited)
        indent = pre.get('indent')
        le = pre.get('line_endings')
        drop_le = 'line_endings' in style.drop and pre.get('_can_drop_le')
        drop_indent = 'indent' in style.drop
        if drop_indent:
            indent = None
        if codec is None:
            # No encoding anywhere: the spec leaves the content as bytes.
            raw_text = pre['text'].encode('ascii')
            kind = le or detect_kind_bytes(raw_text, None)
            nlb = newline_bytes(kind, None)
            if not raw_text.endswith(nlb):
                raw_text += nlb
            raw = indent_bytes(raw_text, nlb, indent, style.unpadded_blank)
            final = raw_text
        else:
            raw, kind, final, nlb = prepare_text(pre['text'], codec, le,
                                                 indent,
                                                 style.unpadded_blank)
        opts = [('encoding', pre.get('encoding')),
                ('indent', indent),
                ('length', len(raw)),
                ('line_endings', None if drop_le else kind),
                ('mimetype', None if ('mimetype' in style.drop)
                 else pre.get('mimetype'))]
        opts = [(k, v) for k, v in opts if v is not None]
        rec = put_header('.' * level + 'preamble', level, opts, 'preamble',
                         final, raw, {'codec': codec, 'nl': nlb,
                                      'nl_kind': kind})
        state['line'] += count_occurrences(raw, nlb)

    def put_meta(meta, level, inherited):
        codec = effective(meta.get('encoding'), inherited)
        text = jsoncanon.foreign(meta['obj'], style.json_style, style.rng)
        own_le = meta.get('line_endings')
        if own_le and style.json_style == 'canonical':
            text = jsoncanon.emit(meta['obj'], indent=4, sort=True,
                                  nl=NL[own_le])
        cdc = codec
        try:
            data = text.encode(codec or 'ascii')
        except UnicodeEncodeError:
            # a producer that writes raw non-ASCII must escape what its
            # codec cannot express
            text = jsoncanon.emit(meta['obj'], indent=4, sort=True)
            data = text.encode(codec or 'ascii')
        # JSON text never ends in a newline by itself; the section must.
        kind = detect_kind_bytes(data, cdc) if style.json_style == 'crlf' \
            else 'unix'
        declared = None
        if own_le and style.json_style == 'canonical':
            declared = kind = own_le
        elif style.meta_line_endings and style.rng is not None:
            if style.json_style in ('crlf', 'compact', 'spaced'):
                # multi-line CRLF JSON is dos; single-line JSON may be either
                declared = 'dos' if style.json_style == 'crlf' else \
                    style.rng.choice(['unix', 'dos'])
            else:
                declared = 'unix'
            kind = declared
        nlb = newline_bytes(kind, cdc)
        if not data.endswith(nlb):
            data += nlb
        opts = [('encoding', meta.get('encoding')),
                ('format', None if 'format' in style.drop else 'json'),
                ('length', len(data)),
                ('line_endings', declared)]
        opts = [(k, v) for k, v in opts if v is not None]
        put_header('.' * level + 'meta', level, opts, 'meta', meta['obj'],
                   data, {'codec': codec, 'nl': nlb, 'nl_kind': kind})
        state['line'] += count_occurrences(data, nlb)

    def put_diff(diff, level):
        codec = diff.get('encoding')
        le = diff.get('line_endings')
        data, kind, nlb = prepare_bytes(diff['data'], codec, le)
        drop_le = 'line_endings' in style.drop and diff.get('_can_drop_le')
        opts = [('encoding', codec),
                ('length', len(data)),
                ('line_endings', None if drop_le else kind),
                ('type', None if ('type' in style.drop)
                 else diff.get('type'))]
        opts = [(k, v) for k, v in opts if v is not None]
        put_header('.' * level + 'diff', level, opts, 'diff', data, data,
                   {'codec': codec, 'nl': nlb, 'nl_kind': kind})
        state['line'] += count_occurrences(data, nlb)

    main_enc = doc.get('encoding')
    mopts = [('encoding', main_enc), ('version', doc.get('version', '1.0'))]
    mopts = [(k, v) for k, v in mopts if v is not None]
    put_header('diffx', 0, mopts, 'container')
    if doc.get('preamble'):
        put_preamble(doc['preamble'], 1, main_enc)
    if doc.get('meta'):
        put_meta(doc['meta'], 1, main_enc)
    for ch in doc.get('changes', ()):
        copts = [('encoding', ch.get('encoding'))]
        copts = [(k, v) for k, v in copts if v is not None]
        put_header('.change', 1, copts, 'container')
        cenc = effective(ch.get('encoding'), main_enc)
        if ch.get('preamble'):
            put_preamble(ch['preamble'], 2, cenc)
        if ch.get('meta'):
            put_meta(ch['meta'], 2, cenc)
        for f in ch.get('files', ()):
            fopts = [('encoding', f.get('encoding'))]
            fopts = [(k, v) for k, v in fopts if v is not None]
            put_header('..file', 2, fopts, 'container')
            fenc = effective(f.get('encoding'), cenc)
            if f.get('meta'):
                put_meta(f['meta'], 3, fenc)
            if f.get('diff'):
                put_diff(f['diff'], 3)
    if style.trailing_blank and style.rng is not None:
        for _ in range(style.rng.randint(0, style.trailing_blank)):
            out.append(b'\r\n' if style.crlf_headers else b'\n')
    return b''.join(out), layout


def options_of(header_bytes):
    """(key, value) string pairs as written in a header line we produced."""
    s = header_bytes.decode('ascii').rstrip('\r\n')
    i = s.index(':')
    rest = s[i + 1:]
    if not rest:
        return []
    rest = rest[1:]
    return [tuple(p.split('=', 1)) for p in rest.split(', ')]


def _conv(pairs):
    """Reader-side view of option values: decimal integers become ints."""
    import re
    out = []
    for k, v in pairs:
        if re.match(r'^-?[0-9]+$', v):
            out.append((k, int(v)))
        else:
            out.append((k, v))
    return out


def expected_records(layout):
    """Records a conformant reader must yield for a layout."""
    recs = []
    for s in layout:
        r = {'section': s['id'], 'level': s['level'], 'line': s['line'],
             'options': s['options'], 'type': s['id'].lstrip('.')}
        if s['kind'] == 'preamble':
            r['text'] = s['content']
        elif s['kind'] == 'meta':
            r['metadata'] = s['content']
        elif s['kind'] == 'diff':
            r['diff'] = s['content']
        recs.append(r)
    return recs
