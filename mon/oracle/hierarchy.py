"""Section hierarchy relation taken from docs/spec (sections.rst hierarchy
with cardinalities + section-format.rst state tree). Independent of pydiffx.

MUST_ACCEPT: pairs (previous id, next id) both normative readings allow (or
that the property statements C09/C10 name explicitly).
DONT_CARE: ``..meta -> .change`` -- the hierarchy demands >=1 file per
change, the parser state tree lists the transition; either behaviour is
tolerated.  Everything else must be rejected.
"""

LEGAL_IDS = ['diffx', '.preamble', '.meta', '.change', '..preamble',
             '..meta', '..file', '...meta', '...diff']

NAMES = ['diffx', 'preamble', 'meta', 'change', 'file', 'diff']

#: all 24 syntactically valid level/name combinations
ALL_IDS = ['.' * lv + n for lv in range(4) for n in NAMES]

ILLEGAL_IDS = [i for i in ALL_IDS if i not in LEGAL_IDS]

MUST_ACCEPT = {
    ('diffx', '.preamble'), ('diffx', '.meta'), ('diffx', '.change'),
    ('.preamble', '.meta'), ('.preamble', '.change'),
    ('.meta', '.change'),
    ('.change', '..preamble'), ('.change', '..meta'), ('.change', '..file'),
    ('..preamble', '..meta'), ('..preamble', '..file'),
    ('..meta', '..file'),
    ('..file', '...meta'),
    ('...meta', '...diff'), ('...meta', '..file'), ('...meta', '.change'),
    ('...diff', '..file'), ('...diff', '.change'),
}

DONT_CARE = {('..meta', '.change')}

CONTENT_KIND = {'.preamble': 'preamble', '..preamble': 'preamble',
                '.meta': 'meta', '..meta': 'meta', '...meta': 'meta',
                '...diff': 'diff'}

CONTAINER_LEVEL = {'diffx': 0, '.change': 1, '..file': 2}


def verdict(prev, nxt):
    """'accept' | 'reject' | 'either' for nxt following prev.
    prev None = start of file."""
    if prev is None:
        return 'accept' if nxt == 'diffx' else 'reject'
    if (prev, nxt) in MUST_ACCEPT:
        return 'accept'
    if (prev, nxt) in DONT_CARE:
        return 'either'
    return 'reject'


def legal_successors(prev):
    return [n for n in LEGAL_IDS if verdict(prev, n) == 'accept']


# writer call -> section id, given the container depth (0 main, 1 change,
# 2 file) the writer is in when the call is made
def call_section(call, depth):
    if call == 'new_change':
        return '.change'
    if call == 'new_file':
        return '..file'
    name = {'write_preamble': 'preamble', 'write_meta': 'meta',
            'write_diff': 'diff'}[call]
    return '.' * (depth + 1) + name
