"""Independent structural scanner / conformance checker for DiffX bytes.

``scan(data)`` walks a byte string using only the header grammar and the
declared lengths and returns (sections, problems). With ``canonical=True``
it also checks what C02 demands of writer output: ASCII headers with LF,
options sorted and ", "-separated, legal ids in a legal order, length equal
to the distance to the next header, content ending in the BOM-free newline of
its declared kind in the effective encoding, indentation on every byte-level
line, canonical JSON layout.
"""
from mon.oracle import header_grammar as hg
from mon.oracle import hierarchy, jsoncanon
from mon.oracle.newline import newline_bytes
from mon.oracle.splitter import scan_split


def scan(data, canonical=False):
    sections = []
    problems = []
    pos = 0
    n = len(data)
    prev_id = None
    enc_stack = []      # (level, encoding) of open containers
    while pos < n:
        eol = data.find(b'\n', pos)
        if eol < 0:
            problems.append(('unterminated_line', pos))
            break
        line = data[pos:eol]
        nxt = eol + 1
        if line.endswith(b'\r'):
            if canonical:
                problems.append(('cr_in_header', pos))
            line = line[:-1]
        if line.strip() == b'':
            if canonical:
                problems.append(('blank_line', pos))
            pos = nxt
            continue
        parsed = hg.parse_header(line)
        if parsed is None:
            problems.append(('not_a_header', pos))
            break
        sid, level, name, pairs = parsed
        opts = hg.convert(pairs)
        sec = {'id': sid, 'level': level, 'hoff': pos, 'options': opts,
               'pairs': pairs}
        if canonical:
            try:
                line.decode('ascii')
            except UnicodeDecodeError:
                problems.append(('non_ascii_header', pos))
            keys = [k for k, _ in pairs]
            if keys != sorted(keys):
                problems.append(('options_not_sorted', pos))
            if len(set(keys)) != len(keys):
                problems.append(('duplicate_option', pos))
        if sid not in hierarchy.LEGAL_IDS:
            problems.append(('illegal_section_id', pos))
        elif hierarchy.verdict(prev_id, sid) == 'reject':
            problems.append(('illegal_section_order', pos))
        prev_id = sid
        pos = nxt
        if sid in hierarchy.CONTAINER_LEVEL:
            lv = hierarchy.CONTAINER_LEVEL[sid]
            while enc_stack and enc_stack[-1][0] >= lv:
                enc_stack.pop()
            inherited = enc_stack[-1][1] if enc_stack else None
            enc_stack.append((lv, opts.get('encoding') or inherited))
            sec['kind'] = 'container'
        elif sid in hierarchy.CONTENT_KIND:
            kind = hierarchy.CONTENT_KIND[sid]
            sec['kind'] = kind
            length = opts.get('length')
            if not isinstance(length, int) or length < 0:
                problems.append(('bad_length', sec['hoff']))
                sections.append(sec)
                break
            raw = data[pos:pos + length]
            sec['coff'] = pos
            sec['raw'] = raw
            if len(raw) != length:
                problems.append(('length_beyond_eof', sec['hoff']))
                sections.append(sec)
                break
            pos += length
            inherited = enc_stack[-1][1] if enc_stack else None
            if kind == 'diff':
                codec = opts.get('encoding')
            else:
                codec = opts.get('encoding') or inherited
            sec['codec'] = codec
            if canonical:
                _check_content(sec, kind, codec, problems)
            # framing: what follows must be a header (or EOF / blank)
            if pos < n and not canonical:
                pass
            if pos < n and canonical and data[pos:pos + 1] != b'#':
                problems.append(('length_does_not_reach_next_header',
                                 sec['hoff']))
        else:
            sec['kind'] = 'illegal'
        sections.append(sec)
    return sections, problems


def _check_content(sec, kind, codec, problems):
    opts = sec['options']
    raw = sec['raw']
    le = opts.get('line_endings')
    where = sec['hoff']
    try:
        if kind == 'meta':
            nl_kind = le or 'unix'
        else:
            if le not in ('unix', 'dos'):
                problems.append(('line_endings_missing', where))
                return
            nl_kind = le
        nlb = newline_bytes(nl_kind, codec)
    except LookupError:
        problems.append(('unknown_codec', where))
        return
    if nlb is None:
        return
    if not raw.endswith(nlb):
        problems.append(('content_lacks_final_newline', where))
    indent = opts.get('indent')
    body = raw
    if kind == 'preamble' and isinstance(indent, int) and indent > 0:
        pad = b' ' * indent
        lines = scan_split(raw, nlb)
        if not all(l.startswith(pad) for l in lines):
            problems.append(('line_not_indented', where))
        else:
            body = b''.join(l[indent:] for l in lines)
    if kind == 'meta':
        if opts.get('format', 'json') != 'json':
            problems.append(('meta_format', where))
        if codec is None:
            problems.append(('meta_without_encoding', where))
            return
        try:
            text = body.decode(codec)
        except UnicodeDecodeError:
            problems.append(('meta_undecodable', where))
            return
        import json
        try:
            obj = json.loads(text)
        except ValueError:
            problems.append(('meta_not_json', where))
            return
        if not isinstance(obj, dict):
            problems.append(('meta_not_object', where))
            return
        nlt = '\r\n' if nl_kind == 'dos' else '\n'
        if not text.endswith(nlt):
            problems.append(('content_lacks_final_newline', where))
        elif not jsoncanon.same_layout(
                text[:-len(nlt)],
                jsoncanon.canonical(obj).replace('\n', nlt)):
            problems.append(('json_layout_not_canonical', where))
    elif kind == 'preamble' and codec is not None:
        try:
            body.decode(codec)
        except UnicodeDecodeError:
            problems.append(('preamble_undecodable', where))
