"""Snapshots of live object-model trees as nested plain data, and conversion
between snapshots, recipes and serializer layouts. Only public attributes of
the object model are read (section_id, options, content, subsections)."""
import copy


def snap_section(sec):
    out = {'id': sec.section_id, 'cls': type(sec).__name__,
           'options': copy.deepcopy(dict(sec.options))}
    if hasattr(sec, 'content'):
        out['content'] = copy.deepcopy(sec.content)
    subs = getattr(sec, 'subsections', None)
    if subs is not None:
        out['sub'] = [snap_section(s) for s in list(subs)]
    return out


def snapshot(tree):
    s = snap_section(tree)
    # The root's section_id attribute is not used by any property (pydiffx
    # reports the string "None" there); the root is identified by position.
    s['id'] = 'diffx'
    return s


def equal(a, b):
    """Strict structural equality of two snapshots (types matter)."""
    from mon.props.common import strict_equal
    return strict_equal(a, b)


def first_diff(a, b, path='diffx'):
    from mon.props.common import strict_equal
    if a.get('id') != b.get('id') or a.get('cls') != b.get('cls'):
        return path, 'section_identity', (a.get('id'), b.get('id'))
    if not strict_equal(a['options'], b['options']):
        ks = sorted(set(a['options']) | set(b['options']))
        for k in ks:
            if k not in a['options'] or k not in b['options'] or \
                    not strict_equal(a['options'][k], b['options'][k]):
                return path, 'option:%s' % k, (a['options'].get(k),
                                               b['options'].get(k))
    if ('content' in a) != ('content' in b):
        return path, 'content_presence', None
    if 'content' in a and not strict_equal(a['content'], b['content']):
        return path, 'content', (a['content'], b['content'])
    sa, sb = a.get('sub'), b.get('sub')
    if (sa is None) != (sb is None):
        return path, 'subsections_presence', None
    if sa is not None:
        if len(sa) != len(sb):
            return path, 'subsection_count', (len(sa), len(sb))
        for i, (x, y) in enumerate(zip(sa, sb)):
            d = first_diff(x, y, '%s/%d:%s' % (path, i, x.get('id')))
            if d:
                return d
    return None


# ---------------------------------------------------------- snapshot -> recipe
def _sub(snap, sid):
    for s in snap.get('sub', ()):
        if s['id'] == sid:
            return s
    return None


def _pre(s):
    if s is None or not s.get('content'):
        return None
    o = s['options']
    return {'text': s['content'], 'encoding': o.get('encoding'),
            'indent': o.get('indent', 4),
            'line_endings': o.get('line_endings'),
            'mimetype': o.get('mimetype'), 'explicit': False}


def _meta(s):
    if s is None or not s.get('content'):
        return None
    return {'obj': s['content'], 'encoding': s['options'].get('encoding'),
            'line_endings': s['options'].get('line_endings')}


def _diff(s):
    if s is None or not s.get('content'):
        return None
    o = s['options']
    return {'data': s['content'], 'encoding': o.get('encoding'),
            'line_endings': o.get('line_endings'), 'type': o.get('type')}


def to_recipe(snap):
    """Recipe of the document the tree denotes (what its serialisation must
    contain). Empty content sections are omitted."""
    doc = {'encoding': snap['options'].get('encoding'),
           'version': snap['options'].get('version', '1.0'), 'changes': []}
    p = _pre(_sub(snap, '.preamble'))
    if p:
        doc['preamble'] = p
    m = _meta(_sub(snap, '.meta'))
    if m:
        doc['meta'] = m
    for ch in snap.get('sub', ()):
        if ch['id'] != '.change':
            continue
        c = {'encoding': ch['options'].get('encoding'), 'files': []}
        p = _pre(_sub(ch, '..preamble'))
        if p:
            c['preamble'] = p
        m = _meta(_sub(ch, '..meta'))
        if m:
            c['meta'] = m
        for f in ch.get('sub', ()):
            if f['id'] != '..file':
                continue
            fr = {'encoding': f['options'].get('encoding')}
            m = _meta(_sub(f, '...meta'))
            if m:
                fr['meta'] = m
            d = _diff(_sub(f, '...diff'))
            if d:
                fr['diff'] = d
            c['files'].append(fr)
        doc['changes'].append(c)
    return doc


# ----------------------------------------------------- layout -> parsed snapshot
_CLS = {'diffx': 'DiffX', 'change': 'DiffXChangeSection',
        'file': 'DiffXFileSection', 'preamble': 'DiffXPreambleSection',
        'meta': 'DiffXMetaSection', 'diff': 'DiffXFileDiffSection'}
_EMPTY = {'preamble': (None, {}), 'meta': ({}, {'format': 'json'}),
          'diff': (None, {})}


def _content_sec(level, name, rec=None):
    sid = '.' * level + name
    if rec is None:
        content, options = _EMPTY[name]
        return {'id': sid, 'cls': _CLS[name],
                'options': dict(options), 'content': copy.deepcopy(content)}
    o = dict(rec['options'])
    o.pop('length', None)
    return {'id': sid, 'cls': _CLS[name], 'options': o,
            'content': copy.deepcopy(rec['content'])}


def from_layout(layout):
    """Snapshot a conformant object-model loader must produce for a file
    with this layout (documented normalisation: options as written in the
    headers minus length; absent content sections are empty)."""
    it = iter(layout)
    root = None
    cur_change = None
    cur_file = None
    for s in it:
        name = s['id'].lstrip('.')
        if s['id'] == 'diffx':
            root = {'id': 'diffx', 'cls': 'DiffX',
                    'options': dict(s['options']),
                    'sub': [_content_sec(1, 'preamble'),
                            _content_sec(1, 'meta')]}
        elif s['id'] == '.preamble':
            root['sub'][0] = _content_sec(1, 'preamble', s)
        elif s['id'] == '.meta':
            root['sub'][1] = _content_sec(1, 'meta', s)
        elif s['id'] == '.change':
            cur_change = {'id': '.change', 'cls': _CLS['change'],
                          'options': dict(s['options']),
                          'sub': [_content_sec(2, 'preamble'),
                                  _content_sec(2, 'meta')]}
            root['sub'].append(cur_change)
        elif s['id'] == '..preamble':
            cur_change['sub'][0] = _content_sec(2, 'preamble', s)
        elif s['id'] == '..meta':
            cur_change['sub'][1] = _content_sec(2, 'meta', s)
        elif s['id'] == '..file':
            cur_file = {'id': '..file', 'cls': _CLS['file'],
                        'options': dict(s['options']),
                        'sub': [_content_sec(3, 'meta'),
                                _content_sec(3, 'diff')]}
            cur_change['sub'].append(cur_file)
        elif s['id'] == '...meta':
            cur_file['sub'][0] = _content_sec(3, 'meta', s)
        elif s['id'] == '...diff':
            cur_file['sub'][1] = _content_sec(3, 'diff', s)
    return root
