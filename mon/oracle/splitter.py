"""Reference line splitter and the C16 identities (independent of pydiffx)."""


def scan_split(data, newline):
    """Left-to-right scanning splitter: list of lines with ends kept."""
    out = []
    n = len(newline)
    i = 0
    start = 0
    L = len(data)
    while i <= L - n:
        if data[i:i + n] == newline:
            out.append(data[start:i + n])
            i += n
            start = i
        else:
            i += 1
    if start < L:
        out.append(data[start:])
    return out


def count_occurrences(data, newline):
    """Non-overlapping, left-to-right occurrences of newline in data."""
    n = 0
    i = 0
    ln = len(newline)
    while True:
        j = data.find(newline, i)
        if j < 0:
            return n
        n += 1
        i = j + ln


def check_keep(data, newline, kept):
    """Failed identities for a keep_ends=True result (list of names)."""
    fails = []
    if not isinstance(kept, list) or not all(isinstance(x, bytes)
                                             for x in kept):
        return ['type']
    if b''.join(kept) != data:
        fails.append('join_identity')
    ln = len(newline)
    for idx, line in enumerate(kept):
        last = idx == len(kept) - 1
        if line.endswith(newline):
            if line.find(newline) != len(line) - ln:
                fails.append('newline_inside_line')
                break
        else:
            if not last:
                fails.append('unterminated_inner_line')
                break
            if line.find(newline) != -1:
                fails.append('newline_inside_line')
                break
        if not line:
            fails.append('empty_line_entry')
            break
    expect = count_occurrences(data, newline)
    if not data.endswith(newline):
        expect += 1
    if len(kept) != expect:
        fails.append('line_count')
    return fails


def strip_one(kept, newline):
    ln = len(newline)
    return [x[:-ln] if x.endswith(newline) else x for x in kept]


def check_nokeep(data, newline, kept, plain):
    if plain != strip_one(kept, newline):
        return ['modes_disagree']
    return []
