"""BOM-free newline model: what LF / CRLF are in a codec, independent of any
table of BOMs or of how the codec's name is spelled."""

NL = {'unix': '\n', 'dos': '\r\n'}


def signature(codec):
    """Bytes a codec emits for the empty string (its BOM/signature)."""
    return ''.encode(codec)


def newline_bytes(kind, codec):
    """Encoding of the newline of ``kind`` in ``codec`` without signature.

    Returns None if the codec does not emit its signature as a prefix (then
    the model has no opinion)."""
    if codec is None:
        codec = 'ascii'
    sig = ''.encode(codec)
    enc = NL[kind].encode(codec)
    if not enc.startswith(sig):
        return None
    return enc[len(sig):]


def detect_kind_text(text):
    """Spec rule: read up to the first LF; dos iff it is preceded by CR."""
    i = text.find('\n')
    if i > 0 and text[i - 1] == '\r':
        return 'dos'
    return 'unix'


def detect_kind_bytes(data, codec):
    """Same rule on encoded bytes (byte-level search, as a streaming parser
    that has not decoded yet must do)."""
    lf = newline_bytes('unix', codec)
    crlf = newline_bytes('dos', codec)
    i = data.find(lf)
    if i != -1 and data[:i + len(lf)].endswith(crlf):
        return 'dos'
    return 'unix'
