"""Independent JSON emitter (canonical DiffX layout and foreign layouts) and a
layout-aware comparer. Written from RFC 8259 + the DiffX spec's "sorted keys,
4-space indent" recommendation; does not use the json module for emitting.
"""
import json as _json   # only for loads() in the tolerant comparer

_ESC = {'"': '\\"', '\\': '\\\\', '\n': '\\n', '\r': '\\r', '\t': '\\t',
        '\b': '\\b', '\f': '\\f'}


def emit_string(s, ascii_only=True):
    out = ['"']
    for ch in s:
        if ch in _ESC:
            out.append(_ESC[ch])
            continue
        o = ord(ch)
        if o < 0x20 or 0xd800 <= o <= 0xdfff:
            # control characters, and lone surrogates (no codec can carry
            # them raw): always escaped
            out.append('\\u%04x' % o)
        elif o < 0x7f or not ascii_only:
            out.append(ch)
        elif o < 0x10000:
            out.append('\\u%04x' % o)
        else:
            o -= 0x10000
            out.append('\\u%04x\\u%04x' % (0xd800 | (o >> 10),
                                           0xdc00 | (o & 0x3ff)))
    out.append('"')
    return ''.join(out)


def emit_number(v):
    if isinstance(v, bool):
        return 'true' if v else 'false'
    if isinstance(v, int):
        return str(v)
    if v in (float('inf'), float('-inf')):
        # a JSON number too large for a double (the grammar has no bound);
        # "Infinity" is not JSON
        return '1e999' if v > 0 else '-1e999'
    return float.__repr__(v)


def emit(value, indent=4, item_sep=',', key_sep=': ', sort=True, level=0,
         nl='\n', ascii_only=True):
    """Pretty emitter. indent=None gives a single-line document."""
    if value is None:
        return 'null'
    if value is True:
        return 'true'
    if value is False:
        return 'false'
    if isinstance(value, (int, float)):
        return emit_number(value)
    if isinstance(value, str):
        return emit_string(value, ascii_only)
    if indent is None:
        pad = padc = brk = ''
    else:
        brk = nl
        pad = ' ' * (indent * (level + 1))
        padc = ' ' * (indent * level)
    if isinstance(value, (list, tuple)):
        if not value:
            return '[]'
        parts = [pad + emit(v, indent, item_sep, key_sep, sort, level + 1, nl,
                            ascii_only) for v in value]
        return '[' + brk + (item_sep + brk).join(parts) + brk + padc + ']'
    if isinstance(value, dict):
        if not value:
            return '{}'
        keys = list(value.keys())
        if sort:
            keys.sort()
        parts = [pad + emit_string(k, ascii_only) + key_sep +
                 emit(value[k], indent, item_sep, key_sep, sort, level + 1,
                      nl, ascii_only) for k in keys]
        return '{' + brk + (item_sep + brk).join(parts) + brk + padc + '}'
    raise TypeError(type(value))


def canonical(value):
    """The layout the DiffX writer is specified to produce."""
    return emit(value, indent=4, item_sep=',', key_sep=': ', sort=True)


def foreign(value, style, rng=None):
    """Other producers' layouts (all valid JSON for the same value)."""
    if style == 'compact':
        return emit(value, indent=None, item_sep=',', key_sep=':', sort=False)
    if style == 'spaced':
        return emit(value, indent=None, item_sep=', ', key_sep=': ',
                    sort=False)
    if style == 'indent2':
        return emit(value, indent=2, item_sep=',', key_sep=': ', sort=False)
    if style == 'raw_unicode':
        return emit(value, indent=4, item_sep=',', key_sep=': ', sort=True,
                    ascii_only=False)
    if style == 'crlf':
        return emit(value, indent=4, item_sep=',', key_sep=': ', sort=True,
                    nl='\r\n')
    return canonical(value)


# --------------------------------------------------------------- tokenizer
def tokens(text):
    """Split JSON text into tokens; strings and numbers are replaced by their
    denotation, structural characters and whitespace are kept verbatim.
    Raises ValueError on malformed input."""
    out = []
    i = 0
    n = len(text)
    dec = _json.JSONDecoder()
    while i < n:
        c = text[i]
        if c in ' \t\r\n':
            j = i
            while j < n and text[j] in ' \t\r\n':
                j += 1
            out.append(('ws', text[i:j]))
            i = j
        elif c in '{}[],:':
            out.append(('p', c))
            i += 1
        elif c == '"':
            val, j = dec.raw_decode(text, i)
            out.append(('s', val))
            i = j
        else:
            j = i
            while j < n and text[j] not in ' \t\r\n{}[],:':
                j += 1
            lit = text[i:j]
            val = _json.loads(lit)
            out.append(('n', (type(val).__name__, val)))
            i = j
    return out


def same_layout(a, b):
    """True if two JSON texts have identical layout tokens and denote the
    same strings / numbers (escape style and number spelling may differ)."""
    try:
        return tokens(a) == tokens(b)
    except ValueError:
        return False


def keys_sorted_everywhere(value):
    if isinstance(value, dict):
        ks = list(value.keys())
        return ks == sorted(ks) and all(keys_sorted_everywhere(v)
                                        for v in value.values())
    if isinstance(value, list):
        return all(keys_sorted_everywhere(v) for v in value)
    return True
