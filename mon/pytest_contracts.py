"""pytest plugin: run the repository's own test-suite with the runtime
contracts attached (contract soundness self-test). A contract that fires on
the suite's inputs is either too strict or a defect the tests do not assert.

    cd /repo && PYTHONPATH=/verif:/verif/.deps /venv/bin/python -m pytest -q \
        -p no:cacheprovider -p mon.pytest_contracts
"""
import json
import os


def pytest_configure(config):
    from mon import env
    env.setup()
    from mon.monitor import contracts
    contracts.install(None)


def pytest_sessionfinish(session, exitstatus):
    from mon.monitor import contracts
    st = contracts.stats()
    fails = contracts.failures()
    out = {'stats': st,
           'failures': [[n, c, repr(w)[:300]] for n, c, w in fails]}
    path = os.environ.get('VERIF_CONTRACT_REPORT')
    if path:
        with open(path, 'w') as fh:
            json.dump(out, fh, indent=1)
    print('\n[contracts] evaluations: %s' % {
        k: v['evaluated'] for k, v in st.items() if not k.startswith('_')})
    print('[contracts] failures: %d %s' % (
        len(fails), sorted(set((n, c) for n, c, w in fails))))
