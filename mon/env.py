"""Bootstrapping: put the repository under test and the monitor libraries on
sys.path and make sure that what gets imported really is /repo's working tree.

Nothing here imports pydiffx at module import time; call :func:`setup`.
"""
import os
import subprocess
import sys

VERIF_ROOT = os.path.dirname(os.path.dirname(os.path.abspath(__file__)))
REPO = os.environ.get('VERIF_REPO', '/repo')
DEPS = os.path.join(VERIF_ROOT, '.deps')
OUT = os.path.join(VERIF_ROOT, 'out')
WHEELS = '/opt/veriftools/wheels'

_done = False


class Inconclusive(Exception):
    """The machinery could not reach a verdict (never a violation)."""


def ensure_deps():
    """Install icontract/deal offline into the git-ignored .deps (idempotent).

    Returns True when the libraries are importable afterwards.
    """
    marker = os.path.join(DEPS, 'icontract')
    marker2 = os.path.join(DEPS, 'deal')
    if os.path.isdir(marker) and os.path.isdir(marker2):
        return True
    os.makedirs(DEPS, exist_ok=True)
    lock = os.path.join(DEPS, '.lock')
    import fcntl
    with open(lock, 'w') as fh:
        fcntl.flock(fh, fcntl.LOCK_EX)
        if os.path.isdir(marker) and os.path.isdir(marker2):
            return True
        env = dict(os.environ, PIP_NO_INDEX='1',
                   PIP_DISABLE_PIP_VERSION_CHECK='1')
        try:
            subprocess.run(
                [sys.executable, '-m', 'pip', 'install', '--quiet',
                 '--no-index', '--find-links', WHEELS, '--target', DEPS,
                 '--upgrade', 'deal', 'icontract'],
                check=True, env=env, stdout=subprocess.DEVNULL,
                stderr=subprocess.PIPE, timeout=300)
        except Exception as e:  # pragma: no cover - environment problem
            sys.stderr.write('warning: cannot install contract libs: %r\n'
                             % (e,))
            return False
    return os.path.isdir(marker) and os.path.isdir(marker2)


def setup():
    """Make pydiffx (from $VERIF_REPO/python) importable; verify origin."""
    global _done
    if _done:
        return
    pkg_root = os.path.join(REPO, 'python')
    if not os.path.isdir(os.path.join(pkg_root, 'pydiffx')):
        raise Inconclusive('no pydiffx package under %s' % pkg_root)
    sys.dont_write_bytecode = True
    if pkg_root in sys.path:
        sys.path.remove(pkg_root)
    sys.path.insert(0, pkg_root)
    if os.path.isdir(DEPS) and DEPS not in sys.path:
        sys.path.append(DEPS)
    import pydiffx
    origin = os.path.realpath(pydiffx.__file__)
    if not origin.startswith(os.path.realpath(pkg_root) + os.sep):
        raise Inconclusive('pydiffx imported from %s, not from %s'
                           % (origin, pkg_root))
    _done = True
