#!/usr/bin/env python3
"""Run the quick check of the tagged property (or --all checks) against every
seeded breakage under seeded/ (on scratch copies) and record what caught it
in seeded/<id>/meta.json."""
import json, os, subprocess, sys, concurrent.futures as cf
ROOT = os.path.dirname(os.path.abspath(__file__))
allp = '--all' in sys.argv
only = [a for a in sys.argv[1:] if not a.startswith('--')]
ids = sorted(d for d in os.listdir(os.path.join(ROOT, 'seeded')) if os.path.isdir(os.path.join(ROOT, 'seeded', d)))
if only:
    ids = [i for i in ids if any(i.startswith(o) for o in only)]
def run(sid):
    d = os.path.join(ROOT, 'seeded', sid)
    cmd = ['python3', os.path.join(ROOT, 'tools_seeded.py'), d] + (['--all'] if allp else [])
    r = subprocess.run(cmd, stdout=subprocess.PIPE, stderr=subprocess.STDOUT, text=True)
    lines = r.stdout.strip().splitlines()
    caught = [l for l in lines if ' CAUGHT ' in l]
    missed = [l.split()[0] for l in lines if l.endswith(' missed')]
    other = [l for l in lines if 'INCONCLUSIVE' in l]
    m = json.load(open(os.path.join(d, 'meta.json')))
    m.setdefault('checks', {})
    key = 'all_quick' if allp else 'own_quick'
    m['checks'][key] = {'caught_by': {l.split()[0]: l.split('CAUGHT', 1)[1].strip()[:200] for l in caught},
                        'missed_by': missed, 'inconclusive': other,
                        'command': ' '.join(cmd[1:]).replace(ROOT + '/', '')}
    json.dump(m, open(os.path.join(d, 'meta.json'), 'w'), indent=1)
    return sid, [l.split()[0] for l in caught], missed, other
with cf.ThreadPoolExecutor(3 if allp else 5) as ex:
    for sid, caught, missed, other in ex.map(run, ids):
        tag = sid.split('-')[0]
        print('%-8s %s caught_by=%s %s' % (sid, 'OK    ' if tag in caught else 'MISSED', ' '.join(caught) or '-', ('inconclusive:%s' % other) if other else ''))
