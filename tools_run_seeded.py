#!/usr/bin/env python3
"""Run the quick check of the tagged property (or --all checks) against every
seeded breakage under seeded/ (on scratch copies) and record what caught it
in seeded/<id>/meta.json."""
import json, os, subprocess, sys, concurrent.futures as cf
ROOT = os.path.dirname(os.path.abspath(__file__))
allp = '--all' in sys.argv
related = '--related' in sys.argv
REL = {'reader.py': 'C01 C03 C04 C06 C07 C08 C10 C11 C12 C17', 'dom/reader.py': 'C05 C06 C08 C18', 'dom/writer.py': 'C04 C05 C06 C18', 'writer.py': 'C01 C02 C04 C05 C06 C09 C15 C20', 'utils/text.py': 'C01 C02 C03 C07 C13 C15 C16', 'unified_diffs.py': 'C13 C14', 'dom/objects.py': 'C05 C06 C13 C18 C19', 'dom/properties.py': 'C05 C18 C19', 'options.py': 'C09 C19 C03', 'sections.py': 'C09 C10', 'pygments_lexer.py': 'C20', 'errors.py': 'C08 C14'}

only = [a for a in sys.argv[1:] if not a.startswith('--')]
ids = sorted(d for d in os.listdir(os.path.join(ROOT, 'seeded')) if os.path.isdir(os.path.join(ROOT, 'seeded', d)))
if only:
    ids = [i for i in ids if any(i.startswith(o) for o in only)]
def run(sid):
    d = os.path.join(ROOT, 'seeded', sid)
    extra = []
    if related:
        patch = open(os.path.join(d, 'patch.diff')).read()
        props = set([sid.split('-')[0]])
        for key, val in REL.items():
            if ('pydiffx/' + key) in patch and (key != 'reader.py' or 'pydiffx/reader.py' in patch.replace('dom/reader.py', '')) and (key != 'writer.py' or 'pydiffx/writer.py' in patch.replace('dom/writer.py', '')):
                props.update(val.split())
        extra = sorted(props)
    cmd = ['python3', os.path.join(ROOT, 'tools_seeded.py'), d] + extra + (['--all'] if allp else [])
    r = subprocess.run(cmd, stdout=subprocess.PIPE, stderr=subprocess.STDOUT, text=True)
    lines = r.stdout.strip().splitlines()
    caught = [l for l in lines if ' CAUGHT ' in l]
    missed = [l.split()[0] for l in lines if l.endswith(' missed')]
    other = [l for l in lines if 'INCONCLUSIVE' in l]
    m = json.load(open(os.path.join(d, 'meta.json')))
    m.setdefault('checks', {})
    key = 'all_quick' if allp else ('related_quick' if related else 'own_quick')
    m['checks'][key] = {'caught_by': {l.split()[0]: l.split('CAUGHT', 1)[1].strip()[:200] for l in caught},
                        'missed_by': missed, 'inconclusive': other,
                        'command': ' '.join(cmd[1:]).replace(ROOT + '/', '')}
    json.dump(m, open(os.path.join(d, 'meta.json'), 'w'), indent=1)
    return sid, [l.split()[0] for l in caught], missed, other
with cf.ThreadPoolExecutor(2 if (allp or related) else 5) as ex:
    for sid, caught, missed, other in ex.map(run, ids):
        tag = sid.split('-')[0]
        print('%-8s %s caught_by=%s %s' % (sid, 'OK    ' if tag in caught else 'MISSED', ' '.join(caught) or '-', ('inconclusive:%s' % other) if other else ''))
