import json,glob,sys
prop=sys.argv[1]
for f in sorted(glob.glob('out/replay/%s-*.json'%prop), key=lambda x:int(x.split('-')[-1][:-5])):
    v=json.load(open(f))
    print('==',v['mechanism'], 'x',v.get('occurrences'))
    c=v['case']
    if isinstance(c,dict):
        c={k:(bytes.fromhex(x['__b__'])[-int(sys.argv[2]) if len(sys.argv)>2 else -160:] if isinstance(x,dict) and '__b__' in x else x) for k,x in c.items()}
    print('  case:',str(c)[:int(sys.argv[3]) if len(sys.argv)>3 else 500])
    print('  detail:',json.dumps(v['detail'])[:400])
